#!/bin/sh
# seedbatch.sh <root dir with CXX/_seed/N> <id suffix e.g. r2> <PROP> [PROP...]
root=$1; suf=$2; shift 2
for p in "$@"; do for n in 1 2; do
  [ -f $root/$p/_seed/$n/patch.diff ] || { echo "== $p-$n missing"; continue; }
  echo "== $p-$n"
  /verif/tools/seedcheck.py $root/$p/_seed/$n $p ${p}-${suf}$n --keep 2>&1 | /venv/bin/python -c "
import sys,json
t=sys.stdin.read()
try:
    m=json.loads(t[t.index('{'):])
    print('valid=%s demo0=%s demo1=%s base=%s'%(m['valid_seed'],m['demo_on_unchanged_rc'],m['demo_with_change_rc'],m['baseline_with_change'][:40]))
    for c,v in m['checks'].items(): print('  ',c,v['verdict'],v['wall_s'],(v['first_witness'] or '')[:230])
except Exception as e: print('ERR',e,t[-400:])
"
done; done
