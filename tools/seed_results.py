#!/venv/bin/python
"""rewrite seeded/RESULTS.md from the meta.json files as they stand (no check is run; tools/reseed_all.py re-runs them)"""
import os, json, glob
VERIF = os.path.dirname(os.path.dirname(os.path.abspath(__file__)))
rows = []
for d in sorted(glob.glob(os.path.join(VERIF, "seeded", "C*"))):
    sid = os.path.basename(d)
    prop = sid.split("-")[0]
    m = json.load(open(os.path.join(d, "meta.json")))
    if m.get("neutralised_by"):
        rows.append((sid, prop, "neutralised by " + m["neutralised_by"], "-", m.get("disposition") or "", ""))
        continue
    verdicts = ", ".join("%s:%s" % (c, v["verdict"]) for c, v in m.get("checks", {}).items())
    wit = next((v["first_witness"] for v in m.get("checks", {}).values() if v.get("first_witness")), "") or ""
    rows.append((sid, prop, "valid" if m.get("valid_seed") else "INVALID", verdicts, m.get("disposition") or "", wit[:140].replace("|", "/")))
with open(os.path.join(VERIF, "seeded", "RESULTS.md"), "w") as f:
    f.write("# Seeded changes against the current quick checks (tools/reseed_all.py re-runs them; tools/seed_results.py rewrites this table from the meta.json files)\n\n| seed | property | seed valid | verdicts | disposition | first witness |\n|---|---|---|---|---|---|\n")
    for r in rows:
        f.write("| " + " | ".join(str(x) for x in r) + " |\n")
own = [r[0] for r in rows if not r[2].startswith("neutralised") and (r[1] + ":caught") not in r[3]]
anyc = [r[0] for r in rows if not r[2].startswith("neutralised") and "caught" not in r[3]]
print("%d seeds; %d neutralised; not caught by own check: %d %s; caught by no check: %s" % (len(rows), sum(1 for r in rows if r[2].startswith("neutralised")), len(own), own, anyc))
