#!/venv/bin/python
"""run the repository's pinned baseline (guard off) and compare with /root/.vp/BASELINE.json stable_pass"""
import json, subprocess, sys, os, tempfile, xml.etree.ElementTree as ET
repo = sys.argv[1] if len(sys.argv) > 1 else "/repo"
base = json.load(open("/root/.vp/BASELINE.json"))
fd, path = tempfile.mkstemp(suffix=".xml"); os.close(fd)
env = dict(os.environ); env.pop("DIMARRAY_VERIF", None)
p = subprocess.run(["/venv/bin/python", "-m", "pytest", "-q", "-p", "no:cacheprovider", "--timeout=900",
                    "--continue-on-collection-errors", "--junitxml=" + path], cwd=repo, env=env,
                   stdout=subprocess.PIPE, stderr=subprocess.STDOUT)
passed = set()
for tc in ET.parse(path).getroot().iter("testcase"):
    if not any(ch.tag in ("failure", "error", "skipped") for ch in tc):
        passed.add("%s::%s" % (tc.get("classname"), tc.get("name")))
os.remove(path)
missing = [t for t in base["stable_pass"] if t not in passed]
print("baseline: %d/%d stable tests pass; %d tests pass in total" % (len(base["stable_pass"]) - len(missing), len(base["stable_pass"]), len(passed)))
for t in missing[:20]:
    print("  MISSING", t)
sys.exit(1 if missing else 0)
