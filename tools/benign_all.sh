#!/bin/sh
# re-run every kept benign (property-preserving) change under /verif/benign against the current quick checks
# usage: benign_all.sh [--all]   (3 in parallel; results in benign/<id>/result.json, summary in benign/RESULTS.md)
cd "$(dirname "$0")/.."
ls -d benign/C??-[a-z]? | xargs -P 3 -I{} sh -c 'd={}; id=$(basename $d); p=${id%%-*}; grep -q "not run" $d/result.json 2>/dev/null && exit 0; tools/benigncheck.py $d $p $id --keep '"$1"' > /dev/null 2>&1; echo "$id $(jq -c .alarms $d/result.json)"'
{ echo "# Property-preserving changes (benign round) against the current quick checks"; echo; echo "| id | files | checks run | alarms |"; echo "|---|---|---|---|";
  for d in benign/C??-[a-z]?; do jq -r '"| \(.id) | \((.files // [])|join(" ")) | \((.checks // {})|keys|join(" ")) | \((.alarms // [])|join(" ")) \(.note // "") |"' $d/result.json; done; } > benign/RESULTS.md
