#!/venv/bin/python
"""Systematic mutation sweep used to find gaps in the monitors (development tool, not a check).

Generates first-order AST mutants of the anchored source files (comparison boundary, +/-1 on small
integer constants, and/or, not-removal, 'left'/'right', dropped .copy(), forced branch), applies each
to a scratch copy of /repo's working tree (outside /repo and /verif, deleted afterwards) and runs the
quick checks of the properties anchored in that file with VERIF_REPO=<scratch> until one reports a
violation.  Survivors are listed for manual triage (equivalent mutant or monitor gap).

usage: automutate.py [--files core/indexing.py,...] [--max N] [--seed S] [--out file] [--slow]
"""
import ast
import copy
import json
import os
import random
import shutil
import subprocess
import sys
import tempfile
import time
from concurrent.futures import ThreadPoolExecutor

VERIF = os.path.dirname(os.path.dirname(os.path.abspath(__file__)))
FILES = ["dimarray/core/indexing.py", "dimarray/core/bases.py", "dimarray/core/axes.py", "dimarray/core/align.py", "dimarray/core/operation.py",
         "dimarray/core/transform.py", "dimarray/core/reshape.py", "dimarray/core/missingvalues.py", "dimarray/core/dimarraycls.py",
         "dimarray/dataset.py", "dimarray/io/nc.py", "dimarray/lib/stats.py"]
SKIP_FUNCS = {"from_pandas", "to_pandas", "to_larry", "to_cube", "from_cube", "to_MultiIndex", "from_MultiIndex", "reindex_axis_with_pandas",
              "summary_nc", "_repr", "__repr__", "__str__", "summary", "summary_repr", "reset", "reset_axis", "from_arrays", "read_nc.__doc__",
              "group", "ungroup", "GroupBy", "Desc", "_maybe_convert_datetime64", "interp1d_numpy", "interp2d", "quantile", "box", "to_frame",
              "getaxes_broadcast", "broadcast_indices", "_getitems", "istimevariable", "hastimeunits", "NCTimeVariableWrapper"}
SLOW = {"C05", "C15", "C16"}


FUNCMAP = {}
for _p in ["C%02d" % i for i in range(1, 21)]:
    _f = os.path.join(VERIF, "mutants", "funcmap", _p + ".json")
    if os.path.exists(_f):
        FUNCMAP[_p] = json.load(open(_f))


def file_props():
    m = {}
    for l in open(os.path.join(VERIF, "properties.jsonl")):
        p = json.loads(l)
        for f in p["anchors"]["files"]:
            m.setdefault(f, []).append(p["id"])
    return m


class Collector(ast.NodeVisitor):
    """enumerate mutation points as (kind, path-of-node-index)"""

    def __init__(self):
        self.points = []
        self.stack = []
        self.counter = 0

    def generic_visit(self, node):
        idx = self.counter
        self.counter += 1
        node._mid = idx
        if isinstance(node, (ast.FunctionDef, ast.ClassDef)):
            if node.name in SKIP_FUNCS:
                # still number the children consistently
                for ch in ast.iter_child_nodes(node):
                    self.skip(ch)
                return
            self.stack.append(node.name)
        ctx = ".".join(self.stack)
        ln = getattr(node, "lineno", 0)
        if isinstance(node, ast.Compare) and len(node.ops) == 1:
            op = type(node.ops[0]).__name__
            for new in {"Lt": ["LtE"], "LtE": ["Lt"], "Gt": ["GtE"], "GtE": ["Gt"], "Eq": ["NotEq"], "NotEq": ["Eq"], "Is": ["IsNot"], "IsNot": ["Is"],
                        "In": ["NotIn"], "NotIn": ["In"]}.get(op, []):
                self.points.append((idx, "cmp:%s->%s" % (op, new), ln, ctx))
        elif isinstance(node, ast.Constant) and isinstance(node.value, int) and not isinstance(node.value, bool) and -2 <= node.value <= 3:
            self.points.append((idx, "const:%d->%d" % (node.value, node.value + 1), ln, ctx))
            if node.value != 0:
                self.points.append((idx, "const:%d->%d" % (node.value, node.value - 1), ln, ctx))
        elif isinstance(node, ast.Constant) and node.value in ("left", "right", "outer", "inner", "label", "position", "backward", "forward"):
            swap = {"left": "right", "right": "left", "outer": "inner", "inner": "outer", "label": "position", "position": "label",
                    "backward": "forward", "forward": "backward"}[node.value]
            self.points.append((idx, "str:%s->%s" % (node.value, swap), ln, ctx))
        elif isinstance(node, ast.BoolOp):
            self.points.append((idx, "bool:%s" % ("And->Or" if isinstance(node.op, ast.And) else "Or->And"), ln, ctx))
        elif isinstance(node, ast.UnaryOp) and isinstance(node.op, ast.Not):
            self.points.append((idx, "not:removed", ln, ctx))
        elif isinstance(node, ast.BinOp) and isinstance(node.op, (ast.Add, ast.Sub)):
            self.points.append((idx, "binop:%s" % ("Add->Sub" if isinstance(node.op, ast.Add) else "Sub->Add"), ln, ctx))
        elif isinstance(node, ast.Call) and isinstance(node.func, ast.Attribute) and node.func.attr == "copy" and not node.args:
            self.points.append((idx, "call:copy-dropped", ln, ctx))
        elif isinstance(node, ast.If):
            self.points.append((idx, "if:True", ln, ctx))
            self.points.append((idx, "if:False", ln, ctx))
        elif isinstance(node, ast.Subscript) and isinstance(node.slice, ast.Slice) and node.slice.step is None and \
                isinstance(node.slice.lower, ast.Constant) and node.slice.upper is None and node.slice.lower.value == 1:
            pass
        for ch in ast.iter_child_nodes(node):
            self.visit(ch)
        if isinstance(node, (ast.FunctionDef, ast.ClassDef)):
            self.stack.pop()

    def skip(self, node):
        node._mid = self.counter
        self.counter += 1
        for ch in ast.iter_child_nodes(node):
            self.skip(ch)

    visit = generic_visit


def gen_mutants(path):
    src = open(path).read()
    tree = ast.parse(src)
    c = Collector()
    c.visit(tree)
    return src, c.points


def apply_mutant(src, target, kind):
    tree = ast.parse(src)
    # number nodes exactly like the collector
    c = Collector()
    c.visit(tree)
    for node in ast.walk(tree):
        if getattr(node, "_mid", None) == target:
            k = kind
            if k.startswith("cmp:"):
                node.ops = [getattr(ast, k.split("->")[1])()]
            elif k.startswith("const:"):
                node.value = int(k.split("->")[1])
            elif k.startswith("str:"):
                node.value = k.split("->")[1]
            elif k.startswith("bool:"):
                node.op = ast.Or() if isinstance(node.op, ast.And) else ast.And()
            elif k == "not:removed":
                node.op = ast.UAdd() if False else node.op
                # replace `not x` by `bool(x)`-like truthiness: wrap as (x) via double negation removed
                new = node.operand
                replace_node(tree, node, new)
            elif k.startswith("binop:"):
                node.op = ast.Sub() if isinstance(node.op, ast.Add) else ast.Add()
            elif k == "call:copy-dropped":
                replace_node(tree, node, node.func.value)
            elif k == "if:True":
                node.test = ast.BoolOp(ast.Or(), [ast.Constant(True), node.test])
            elif k == "if:False":
                node.test = ast.BoolOp(ast.And(), [ast.Constant(False), node.test])
            ast.fix_missing_locations(tree)
            return ast.unparse(tree)
    raise KeyError(target)


def replace_node(tree, old, new):
    for parent in ast.walk(tree):
        for field, val in ast.iter_fields(parent):
            if val is old:
                setattr(parent, field, new)
                return
            if isinstance(val, list):
                for i, v in enumerate(val):
                    if v is old:
                        val[i] = new
                        return


def copy_repo(d):
    for item in ("dimarray",):
        shutil.copytree(os.path.join("/repo", item), os.path.join(d, item), ignore=shutil.ignore_patterns('__pycache__', '*.pyc'))


def run_one(job):
    f, target, kind, ln, ctx, props, slow = job[:7]
    d = tempfile.mkdtemp(prefix="vp-am-")
    try:
        copy_repo(d)
        # the source as it was when the mutation points were enumerated (the repository may be edited while a sweep runs)
        src = job[7] if len(job) > 7 else open(os.path.join("/repo", f)).read()
        try:
            new = apply_mutant(src, target, kind)
            compile(new, f, "exec")
        except Exception as e:
            return dict(file=f, line=ln, ctx=ctx, kind=kind, verdict="invalid", detail=str(e)[:100])
        open(os.path.join(d, f), "w").write(new)
        # import smoke test: a mutant that breaks import is uninteresting
        r = subprocess.run(["/venv/bin/python", "-c", "import sys; sys.path.insert(0, %r); sys.path.insert(0, %r); import dimarray" % (
            os.path.join(VERIF, "vp", "standins"), d)], capture_output=True, text=True, timeout=120)
        if r.returncode != 0:
            return dict(file=f, line=ln, ctx=ctx, kind=kind, verdict="import-broken")
        # only the checks whose workload reaches the mutated function (mutants/funcmap, from `VERIF_FUNCMAP=1 ./check`),
        # fast ones first, then by how often they call it
        key = os.path.splitext(os.path.basename(f))[0] + "." + (ctx.split(".")[-1] if ctx else "<module>")
        reach = [(p, FUNCMAP.get(p, {}).get(key, 0)) for p in ["C%02d" % i for i in range(1, 21)]]
        reach = [(p, n) for p, n in reach if n > 0]
        if not ctx:
            reach = [(p, 1) for p in props]
        if not reach:
            return dict(file=f, line=ln, ctx=ctx, kind=kind, verdict="unreached", detail="no workload calls %s" % key)
        order = [p for p, n in sorted(reach, key=lambda pn: (pn[0] in SLOW, -pn[1])) if slow or p not in SLOW]
        tried = []
        for p in order:
            t0 = time.time()
            rr = subprocess.run([os.path.join(VERIF, "check"), p, "--tier", "quick", "--no-evidence", "--jobs", "4"],
                                env=dict(os.environ, VERIF_REPO=d), capture_output=True, text=True, cwd=VERIF)
            tried.append("%s:%d" % (p, rr.returncode))
            if rr.returncode == 1:
                wit = [l.strip() for l in rr.stdout.splitlines() if l.strip().startswith("witness")]
                return dict(file=f, line=ln, ctx=ctx, kind=kind, verdict="caught", by=p, tried=tried, witness=(wit[0][:200] if wit else ""))
        if any(t.endswith(":2") for t in tried):
            # the machinery noticed that it could not observe (harness errors / floors): flagged, though not as a violation
            return dict(file=f, line=ln, ctx=ctx, kind=kind, verdict="inconclusive", tried=tried)
        return dict(file=f, line=ln, ctx=ctx, kind=kind, verdict="SURVIVED", tried=tried)
    finally:
        shutil.rmtree(d, ignore_errors=True)


def main():
    args = sys.argv[1:]
    files = FILES
    if "--files" in args:
        files = ["dimarray/" + x if not x.startswith("dimarray/") else x for x in args[args.index("--files") + 1].split(",")]
    mx = int(args[args.index("--max") + 1]) if "--max" in args else 200
    seed = int(args[args.index("--seed") + 1]) if "--seed" in args else 0
    out = args[args.index("--out") + 1] if "--out" in args else os.path.join(VERIF, "mutants", "AUTOMUTANTS.jsonl")
    slow = "--slow" in args
    fp = file_props()
    jobs = []
    if "--retest" in args:
        # re-run the survivors of an earlier sweep (matched by file, line, kind, context) against the current checks
        want = set()
        for l in open(args[args.index("--retest") + 1]):
            r = json.loads(l)
            if r["verdict"] == "SURVIVED":
                want.add((r["file"], r["line"], r["kind"], r["ctx"]))
        for f in FILES:
            src, points = gen_mutants(os.path.join("/repo", f))
            for (idx, kind, ln, ctx) in points:
                if (f, ln, kind, ctx) in want:
                    jobs.append((f, idx, kind, ln, ctx, fp.get(f, []), slow))
        files = []
        mx = len(jobs)
    for f in files:
        src, points = gen_mutants(os.path.join("/repo", f))
        props = fp.get(f, [])
        for (idx, kind, ln, ctx) in points:
            jobs.append((f, idx, kind, ln, ctx, props, slow, src))
    rng = random.Random(seed)
    if "--retest" not in args:
        rng.shuffle(jobs)
    jobs = jobs[:mx]
    print("%d mutation points sampled (of all in %d files)" % (len(jobs), len(files)), flush=True)
    with ThreadPoolExecutor(max_workers=4) as ex, open(out, "a") as fo:
        for r, job in zip(ex.map(run_one, jobs), jobs):
            if len(job) > 7:
                r["text"] = job[7].splitlines()[r["line"] - 1].strip()[:160] if r.get("line") else ""
            fo.write(json.dumps(r) + "\n")
            fo.flush()
            print("%-9s %s:%s %s [%s] %s" % (r["verdict"], r["file"], r["line"], r["kind"], r["ctx"], r.get("by") or r.get("tried") or ""), flush=True)


if __name__ == "__main__":
    main()
