#!/bin/sh
# usage: benignbatch.sh <root> <suffix letter> C01 C02 ...   (runs tools/benigncheck.py for <root>/<P>/_benign/{1,2,3}, kept as benign/<P>-<suffix><n>)
cd "$(dirname "$0")/.."
root=$1; suf=$2; shift 2
for p in "$@"; do for n in 1 2 3; do
  d=$root/$p/_benign/$n
  [ -f $d/patch.diff ] || continue
  [ -f benign/$p-$suf$n/result.json ] && continue
  tools/benigncheck.py $d $p $p-$suf$n --keep > $root/$p-$suf$n.out 2>&1
  echo "$p-$suf$n $(jq -c '[.baseline,.alarms]' benign/$p-$suf$n/result.json 2>/dev/null)"
done; done
