#!/bin/sh
# usage: benignbatch.sh C01 C02 ...   (runs tools/benigncheck.py for /tmp/benign/<P>/_benign/{1,2,3})
cd "$(dirname "$0")/.."
for p in "$@"; do for n in 1 2 3; do
  d=/tmp/benign/$p/_benign/$n
  [ -f $d/patch.diff ] || continue
  [ -f benign/$p-b$n/result.json ] && continue
  tools/benigncheck.py $d $p $p-b$n --keep > /tmp/benign/$p-b$n.out 2>&1
  echo "$p-b$n $(jq -c '[.baseline,.alarms]' benign/$p-b$n/result.json 2>/dev/null)"
done; done
