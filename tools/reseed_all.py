#!/venv/bin/python
"""re-run every seeded change under /verif/seeded against the current checks and rewrite meta.json + seeded/RESULTS.md
usage: reseed_all.py [--tier quick]"""
import os, sys, json, subprocess, glob
VERIF = os.path.dirname(os.path.dirname(os.path.abspath(__file__)))
rows = []
for d in sorted(glob.glob(os.path.join(VERIF, "seeded", "C*"))):
    sid = os.path.basename(d)
    prop = sid.split("-")[0]
    old = json.load(open(os.path.join(d, "meta.json"))) if os.path.exists(os.path.join(d, "meta.json")) else {}
    if old.get("neutralised_by"):
        # a repair of the library removed what this change relied on (it no longer applies, or no longer breaks anything): kept for the record
        rows.append((sid, prop, "neutralised by " + old["neutralised_by"], "-", old.get("disposition") or "", ""))
        print(rows[-1][:4], flush=True)
        continue
    checks = sorted(set([prop] + list(old.get("also_checks", []))))
    r = subprocess.run([os.path.join(VERIF, "tools", "seedcheck.py"), d, prop, sid, "--keep", "--checks", ",".join(checks)], capture_output=True, text=True)
    try:
        m = json.loads(r.stdout[r.stdout.index("{"):])
    except Exception:
        rows.append((sid, prop, "ERROR", r.stdout[-200:] + r.stderr[-200:]))
        continue
    if old.get("also_checks"):
        mm = json.load(open(os.path.join(d, "meta.json")))
        mm["also_checks"] = old["also_checks"]
        mm["disposition"] = old.get("disposition")
        json.dump(mm, open(os.path.join(d, "meta.json"), "w"), indent=1)
    elif old.get("disposition"):
        mm = json.load(open(os.path.join(d, "meta.json")))
        mm["disposition"] = old["disposition"]
        json.dump(mm, open(os.path.join(d, "meta.json"), "w"), indent=1)
    verdicts = ", ".join("%s:%s" % (c, v["verdict"]) for c, v in m["checks"].items())
    wit = next((v["first_witness"] for v in m["checks"].values() if v["first_witness"]), "") or ""
    rows.append((sid, prop, "valid" if m["valid_seed"] else "INVALID", verdicts, old.get("disposition") or "", wit[:140].replace("|", "/")))
    print(rows[-1][:5], flush=True)
with open(os.path.join(VERIF, "seeded", "RESULTS.md"), "w") as f:
    f.write("# Seeded changes re-run against the current quick checks (tools/reseed_all.py)\n\n| seed | property | seed valid | verdicts | disposition | first witness |\n|---|---|---|---|---|---|\n")
    for r in rows:
        f.write("| " + " | ".join(str(x) for x in r) + " |\n")
print("%d seeds; not caught by own check: %s" % (len(rows), [r[0] for r in rows if not r[2].startswith("neutralised") and (r[1] + ":caught") not in r[3]]))
