#!/venv/bin/python
"""append an entry to known_findings.json (development-time tool; checks never write this file)
usage: addfinding.py fixed <prop> <key> <commit> <what>     |  addfinding.py known <prop> <key> <predicate> <what> [witness-json]"""
import sys, json, os
p = "/verif/known_findings.json"
d = json.load(open(p)) if os.path.exists(p) else {"_format": "status=known entries are matched by predicate (vp/findings.py) and printed as KNOWN-FINDING; status=fixed entries suppress nothing", "findings": []}
a = sys.argv[1:]
if a[0] == "fixed":
    e = {"status": "fixed", "property": a[1], "key": a[2], "commit": a[3], "what": a[4],
         "line": "fixed: property=%s %s %s" % (a[1], a[3], a[4])}
else:
    e = {"status": "known", "property": a[1], "key": a[2], "predicate": a[3], "what": a[4]}
    if len(a) > 5:
        e["witness"] = json.loads(a[5])
d["findings"] = [f for f in d["findings"] if not (f["key"] == e["key"] and f["property"] == e["property"])] + [e]
json.dump(d, open(p, "w"), indent=1)
print(e.get("line", e))
