#!/venv/bin/python
"""validate a seeded change produced by a sub-agent and (optionally) record it under /verif/seeded/<id>/
usage: seedcheck.py <seed-dir> <property> <seed-id> [--keep] [--tier quick|thorough] [--checks C01,C05]"""
import os, sys, shutil, subprocess, tempfile, json, time
VERIF = os.path.dirname(os.path.dirname(os.path.abspath(__file__)))
seed, prop, sid = sys.argv[1:4]
keep = '--keep' in sys.argv
tier = sys.argv[sys.argv.index('--tier') + 1] if '--tier' in sys.argv else 'quick'
checks = sys.argv[sys.argv.index('--checks') + 1].split(',') if '--checks' in sys.argv else [prop]


def copy_repo(d):
    for item in ("dimarray", "tests", "conftest.py", "pyproject.toml", "setup.py"):
        src = os.path.join("/repo", item)
        if os.path.isdir(src):
            shutil.copytree(src, os.path.join(d, item), ignore=shutil.ignore_patterns('__pycache__', '*.pyc'))
        elif os.path.exists(src):
            shutil.copy(src, d)


def run_demo(repo):
    env = dict(os.environ, PYTHONPATH=repo + ":" + os.path.join(VERIF, "vp", "standins"), PYTHONDONTWRITEBYTECODE="1")
    r = subprocess.run(["/venv/bin/python", os.path.join(seed, "demo.py")], env=env, capture_output=True, text=True, timeout=600, cwd=tempfile.gettempdir())
    return r.returncode, (r.stdout + r.stderr)[-300:]


clean = tempfile.mkdtemp(prefix="vp-seed-clean-")
mut = tempfile.mkdtemp(prefix="vp-seed-mut-")
meta = {"property": prop, "id": sid}
try:
    copy_repo(clean)
    copy_repo(mut)
    r = subprocess.run(["patch", "-p1", "-i", os.path.join(os.path.abspath(seed), "patch.diff")], cwd=mut, capture_output=True, text=True)
    meta["patch_applies"] = r.returncode == 0
    if r.returncode != 0:
        print("PATCH FAILED", r.stdout, r.stderr)
        sys.exit(2)
    rc0, out0 = run_demo(clean)
    rc1, out1 = run_demo(mut)
    meta["demo_on_unchanged_rc"] = rc0
    meta["demo_with_change_rc"] = rc1
    b = subprocess.run([os.path.join(VERIF, "tools", "baseline.py"), mut], capture_output=True, text=True)
    meta["baseline_with_change"] = b.stdout.strip().splitlines()[0] if b.stdout.strip() else b.stderr[-200:]
    meta["baseline_ok"] = b.returncode == 0
    meta["checks"] = {}
    for c in checks:
        t0 = time.time()
        rr = subprocess.run([os.path.join(VERIF, "check"), c, "--tier", tier, "--no-evidence"], env=dict(os.environ, VERIF_REPO=mut), capture_output=True, text=True, cwd=VERIF)
        wit = [l.strip() for l in rr.stdout.splitlines() if l.strip().startswith("witness")]
        meta["checks"][c] = {"tier": tier, "exit": rr.returncode, "verdict": {0: "MISSED", 1: "caught", 2: "inconclusive"}.get(rr.returncode, "?"),
                             "wall_s": round(time.time() - t0, 1), "first_witness": wit[0][:400] if wit else None,
                             "cross_notes": [l.strip()[:200] for l in rr.stdout.splitlines() if l.startswith("NOTE cross")][:3]}
    valid = meta["patch_applies"] and rc0 == 0 and rc1 != 0 and meta["baseline_ok"]
    meta["valid_seed"] = valid
    print(json.dumps(meta, indent=1))
    if keep and valid:
        dst = os.path.join(VERIF, "seeded", sid)
        os.makedirs(dst, exist_ok=True)
        for f in ("patch.diff", "demo.py", "notes.md"):
            if os.path.exists(os.path.join(seed, f)) and os.path.abspath(seed) != os.path.abspath(dst):
                shutil.copy(os.path.join(seed, f), dst)
        meta["needs_to_manifest"] = open(os.path.join(seed, "notes.md")).read()[:1500] if os.path.exists(os.path.join(seed, "notes.md")) else ""
        meta["what_was_run"] = ["patch -p1 on a scratch copy of /repo's working tree", "tools/baseline.py <scratch> (the 180 stable tests)",
                                "demo.py with PYTHONPATH=<scratch> and =<unchanged copy>", "./check <property> --tier %s with VERIF_REPO=<scratch>" % tier]
        json.dump(meta, open(os.path.join(dst, "meta.json"), "w"), indent=1)
finally:
    shutil.rmtree(clean, ignore_errors=True)
    shutil.rmtree(mut, ignore_errors=True)
