#!/bin/sh
# run every registered quick (or $1=thorough) check and summarise
cd /verif
tier=${1:-quick}
for id in $(/venv/bin/python -c "import json; print(' '.join(c['property_id'] for c in json.load(open('MANIFEST.json'))['checks']))"); do
  out=$(./check $id --tier $tier ${2:+--seed $2} 2>&1); rc=$?
  echo "$id rc=$rc $(echo "$out" | grep -a '^RESULT' | cut -c1-160)"
  [ $rc -ne 0 ] && echo "$out" | grep -a 'VIOLATION\|INCONCLUSIVE\|witness' | cut -c1-400 | head -8
  echo "$out" | grep -a 'KNOWN-FINDING' | cut -c1-200
done
