#!/venv/bin/python
"""run the quick checks against a supposedly property-preserving change (false-alarm hunting)
usage: benigncheck.py <dir with patch.diff> <property> <id> [--keep] [--all]"""
import os, sys, re, shutil, subprocess, tempfile, json, time
VERIF = os.path.dirname(os.path.dirname(os.path.abspath(__file__)))
d, prop, bid = sys.argv[1:4]
keep = '--keep' in sys.argv
patch = os.path.join(os.path.abspath(d), "patch.diff")
files = re.findall(r'^\+\+\+ b/(\S+)', open(patch).read(), re.M)
props = {}
for l in open(os.path.join(VERIF, "properties.jsonl")):
    p = json.loads(l)
    props[p["id"]] = p["anchors"]["files"]
rel = sorted(set([prop] + [k for k, fs in props.items() if any(f in fs for f in files)] + ["C05", "C15", "C16"]))
if '--all' in sys.argv:
    rel = sorted(props)
mut = tempfile.mkdtemp(prefix="vp-benign-")
out = {"id": bid, "property": prop, "files": files, "checks": {}}
try:
    for item in ("dimarray", "tests", "conftest.py", "pyproject.toml", "setup.py"):
        src = os.path.join("/repo", item)
        if os.path.isdir(src):
            shutil.copytree(src, os.path.join(mut, item), ignore=shutil.ignore_patterns('__pycache__', '*.pyc'))
        elif os.path.exists(src):
            shutil.copy(src, mut)
    r = subprocess.run(["patch", "-p1", "-i", patch], cwd=mut, capture_output=True, text=True)
    if r.returncode != 0:
        print("PATCH FAILED", r.stdout[-300:])
        sys.exit(2)
    b = subprocess.run([os.path.join(VERIF, "tools", "baseline.py"), mut], capture_output=True, text=True)
    out["baseline"] = b.stdout.strip().splitlines()[0] if b.stdout.strip() else "?"
    for c in rel:
        rr = subprocess.run([os.path.join(VERIF, "check"), c, "--tier", "quick", "--no-evidence"], env=dict(os.environ, VERIF_REPO=mut), capture_output=True, text=True, cwd=VERIF)
        wit = [l.strip() for l in rr.stdout.splitlines() if l.strip().startswith("witness")]
        inc = [l.strip() for l in rr.stdout.splitlines() if l.startswith("INCONCLUSIVE")]
        out["checks"][c] = {"exit": rr.returncode, "witnesses": [w[:500] for w in wit[:4]], "inconclusive": [i[:300] for i in inc[:2]]}
    alarms = {c: v for c, v in out["checks"].items() if v["exit"] != 0}
    out["alarms"] = sorted(alarms)
    print(json.dumps({"id": bid, "baseline": out["baseline"], "checked": rel, "alarms": alarms}, indent=1))
    if keep:
        dst = os.path.join(VERIF, "benign", bid)
        os.makedirs(dst, exist_ok=True)
        if os.path.abspath(d) != os.path.abspath(dst):
            shutil.copy(patch, dst)
            if os.path.exists(os.path.join(d, "notes.md")):
                shutil.copy(os.path.join(d, "notes.md"), dst)
        rp = os.path.join(dst, "result.json")
        if os.path.exists(rp):
            try:
                prev = json.load(open(rp))
                if prev.get("note"):
                    out["note"] = prev["note"]       # (a hand-written assessment of an alarm survives re-runs)
            except Exception:
                pass
        json.dump(out, open(rp, "w"), indent=1)
finally:
    shutil.rmtree(mut, ignore_errors=True)
