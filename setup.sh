#!/bin/sh
# offline set-up: nothing to build (pure-Python harness, no third-party dependency beyond
# the repository's own interpreter /venv/bin/python with numpy).  Self-test of the harness.
cd "$(dirname "$0")" || exit 1
mkdir -p evidence replay
/venv/bin/python -c "import sys; sys.path.insert(0, '.'); from vp import codec, model, gen; print('vp harness importable')"
