"""Always-on monitors.

M-WF   (C05): well-formedness of every DimArray that passes through DimArray.__init__
              (hooked from here, no source edit) and of every object returned to a workload.
M-DS   (C13): shared-axes invariant after every Dataset.__setitem__ (hooked) and on every
              Dataset returned to a workload.
M-IMM  (C15): deep snapshots of operands before / after every non-in-place call.
M-META (C16): sentinel metadata and its expected fate per operation class.

Monitors never raise into the code under test: they record.  The per-case driver collects
what they recorded (`drain()`).
"""
import sys
import os
import collections
import numpy as np

da = None
DimArray = Dataset = Axis = Axes = MultiAxis = None

COUNTS = collections.Counter()       # monitor_events
SITES = collections.Counter()        # constructor call sites seen by the __init__ hook
_pending = []                        # violations recorded by hooks since the last drain()
ENABLED = True


def note(prop, key, msg):
    _pending.append({"property": prop, "key": key, "msg": msg})


def drain():
    global _pending
    out, _pending = _pending, []
    return out


# ---------------------------------------------------------------------------------------
# freeze / snapshot
# ---------------------------------------------------------------------------------------
def freeze(x):
    """canonical, hashable, deep image of a value (ndarray aware, NaN == NaN)"""
    if isinstance(x, np.ndarray):
        if x.dtype.kind == 'O':
            return ('ndO', x.shape, tuple(freeze(e) for e in x.ravel().tolist()))
        return ('nd', x.dtype.str, x.shape, np.ascontiguousarray(x).tobytes())
    if isinstance(x, np.generic):
        return ('np', x.dtype.str, x.tobytes())
    if isinstance(x, float):
        return ('f', 'nan') if x != x else ('f', x)
    if isinstance(x, (str, int, bool, type(None), bytes, complex)):
        return (type(x).__name__, x)
    if isinstance(x, (list, tuple)):
        return (type(x).__name__,) + tuple(freeze(e) for e in x)
    if isinstance(x, dict):
        return ('dict',) + tuple((freeze(k), freeze(v)) for k, v in x.items())
    if isinstance(x, (set, frozenset)):
        return ('set',) + tuple(sorted((freeze(e) for e in x), key=repr))
    if isinstance(x, slice):
        return ('slice', freeze(x.start), freeze(x.stop), freeze(x.step))
    if Axis is not None:
        if isinstance(x, Dataset):
            return snap_ds(x)
        if isinstance(x, DimArray):
            return snap_da(x)
        if isinstance(x, Axis):
            return snap_axis(x)
    return ('repr', repr(x))


def _attrs_of(o):
    """the metadata dictionary without side effects ({} when it does not exist yet: a dictionary created lazily is no change)"""
    d = o.__dict__.get('_attrs', None) if hasattr(o, '__dict__') else None
    if d is None and '_attrs' not in getattr(o, '__dict__', {}):
        try:
            d = o.attrs
        except Exception:
            d = None
    return d if d is not None else {}


def _coerced_eq(g, e):
    """grouped labels are built through np.array(list of tuples): the members' labels arrive coerced to one common dtype
    (everything a string next to a string member, integers as float64 next to a float member - beyond 2**53 not exactly)"""
    if len(g) != len(e):
        return False
    for x, y in zip(g, e):
        if x == y or str(x) == str(y):
            continue
        try:
            if isinstance(x, float) and not isinstance(y, (str, bytes)) and x == float(y):
                continue
        except Exception:
            pass
        return False
    return True


def snap_axis(ax):
    if isinstance(ax, MultiAxis):
        # lazily built caches (_values, _size) are not part of the observable state: populating them is not a mutation
        # (a *stale* cache is M-WF's business)
        return ('MAX', ax._name, tuple(snap_axis(m) for m in list.__iter__(ax.axes)),
                freeze(ax.__dict__.get('_attrs', {})))
    return ('AX', ax._name, freeze(ax._values), freeze(_attrs_of(ax)))


def snap_da(a):
    return ('DA', freeze(a._values), tuple(snap_axis(ax) for ax in list.__iter__(a._axes)), freeze(_attrs_of(a)))


def snap_ds(ds):
    return ('DS', tuple((k, snap_da(dict.__getitem__(ds, k))) for k in dict.keys(ds)),
            tuple(snap_axis(ax) for ax in list.__iter__(ds._axes)), freeze(_attrs_of(ds)))


def snapshot(obj):
    return freeze(obj)


def describe_diff(before, after, path="obj"):
    """first difference between two frozen images, as text"""
    if before == after:
        return None
    if type(before) is tuple and type(after) is tuple and len(before) == len(after) and before and before[0] == after[0]:
        tag = before[0]
        for i, (b, a) in enumerate(zip(before, after)):
            if b != a:
                sub = describe_diff(b, a, "%s/%s[%d]" % (path, tag, i))
                if sub:
                    return sub
    def brief(t):
        if type(t) is tuple and t and t[0] == 'nd':
            return "ndarray%s%s=%s" % (t[1], t[2], np.frombuffer(t[3], dtype=np.dtype(t[1])).tolist()[:12])
        s = repr(t)
        return s if len(s) < 160 else s[:160] + '...'
    return "%s: %s -> %s" % (path, brief(before), brief(after))


# ---------------------------------------------------------------------------------------
# well-formedness
# ---------------------------------------------------------------------------------------
def _fresh_monotonic(v):
    if v.size < 2:
        return True
    try:
        return bool(np.all(v[1:] > v[:-1]) or np.all(v[1:] < v[:-1]))
    except Exception:
        return None


def wf_problems(a):
    """list of well-formedness problems of a DimArray (empty list = well-formed)"""
    out = []
    try:
        values = a._values
        axes = a._axes
    except AttributeError as e:
        return ["missing attribute: %s" % e]
    if not isinstance(values, np.ndarray):
        return ["values is %s, not ndarray" % type(values).__name__]
    if not isinstance(axes, Axes):
        out.append("axes is %s, not Axes" % type(axes).__name__)
    axl = list(list.__iter__(axes)) if isinstance(axes, list) else list(axes)
    if len(axl) != values.ndim:
        out.append("%d axes for %d dimensions" % (len(axl), values.ndim))
        return out
    names = []
    for i, ax in enumerate(axl):
        if not isinstance(ax, Axis):
            out.append("axis %d is %s" % (i, type(ax).__name__))
            continue
        nm = ax.__dict__.get('_name', None)
        names.append(nm)
        if not isinstance(nm, str) or not nm:
            out.append("axis %d has name %r" % (i, nm))
        if isinstance(ax, MultiAxis):
            members = list(list.__iter__(ax.axes))
            prod = 1
            for m in members:
                prod *= int(m._values.size)
            if prod != values.shape[i]:
                out.append("grouped axis %r: product of member sizes %d != shape %d" % (nm, prod, values.shape[i]))
            cs = ax.__dict__.get('_size', None)
            if cs is not None and int(cs) != values.shape[i]:
                out.append("grouped axis %r: cached size %r != shape %d" % (nm, cs, values.shape[i]))
            cached = ax.__dict__.get('_values', None)
            if cached is not None:
                if cached.ndim != 1 or cached.shape[0] != values.shape[i]:
                    out.append("grouped axis %r: cached labels shape %r" % (nm, cached.shape))
                elif len(members) > 1:
                    import itertools
                    exp = list(itertools.product(*[m._values.tolist() for m in members]))
                    got = cached.tolist()
                    bad = [k for k, (g, e) in enumerate(zip(got, exp))
                           if not (tuple(g) == e or tuple(map(str, g)) == tuple(map(str, e)) or _coerced_eq(g, e))]
                    if bad:
                        out.append("grouped axis %r: cached labels stale at %d: %r vs members %r" % (nm, bad[0], got[bad[0]], exp[bad[0]]))
        else:
            v = ax.__dict__.get('_values', None)
            if not isinstance(v, np.ndarray):
                out.append("axis %r values is %s" % (nm, type(v).__name__))
                continue
            if v.ndim != 1:
                out.append("axis %r is %d-dimensional" % (nm, v.ndim))
            elif v.shape[0] != values.shape[i]:
                out.append("axis %r has %d labels for shape %d" % (nm, v.shape[0], values.shape[i]))
            mono = ax.__dict__.get('_monotonic', None)
            if mono is not None and v.ndim == 1 and v.dtype.kind in 'iuf':
                fm = _fresh_monotonic(v)
                if fm is not None and bool(mono) != fm and len(set(v.tolist())) == v.size:
                    out.append("axis %r: cached monotonic=%r but labels %r" % (nm, mono, v.tolist()[:8]))
    if len(set(names)) != len(names):
        out.append("duplicate dimension names %r" % (names,))
    return out


def ds_problems(ds):
    """C13 invariant of a Dataset: every variable's axis IS the dataset's axis"""
    out = []
    dsax = list(list.__iter__(ds._axes))
    names = [ax._name for ax in dsax]
    if len(set(names)) != len(names):
        out.append("dataset has duplicate dims %r" % (names,))
    byname = {}
    for ax in dsax:
        byname.setdefault(ax._name, ax)
    used = set()
    for k in dict.keys(ds):
        v = dict.__getitem__(ds, k)
        if not isinstance(v, DimArray):
            out.append("variable %r is %s" % (k, type(v).__name__))
            continue
        for p in wf_problems(v):
            out.append("variable %r: %s" % (k, p))
        for ax in list.__iter__(v._axes):
            nm = ax.__dict__.get('_name')
            used.add(nm)
            if nm not in byname:
                out.append("variable %r uses dim %r unknown to the dataset %r" % (k, nm, names))
            elif byname[nm] is not ax:
                out.append("variable %r: axis %r is not the dataset's axis object" % (k, nm))
    return out


# ---------------------------------------------------------------------------------------
# hooks
# ---------------------------------------------------------------------------------------
def _site(depth=2):
    try:
        f = sys._getframe(depth)
        # skip _constructor trampolines
        for _ in range(3):
            if f.f_code.co_name in ('_constructor',) and f.f_back is not None:
                f = f.f_back
            else:
                break
        mod = os.path.splitext(os.path.basename(f.f_code.co_filename))[0]
        return "%s.%s" % (mod, f.f_code.co_name)
    except Exception:
        return "?"


def install(dimarray):
    global da, DimArray, Dataset, Axis, Axes, MultiAxis
    da = dimarray
    DimArray = dimarray.DimArray
    Dataset = dimarray.Dataset
    from dimarray.core.axes import Axis as _Axis, Axes as _Axes, MultiAxis as _MultiAxis
    Axis, Axes, MultiAxis = _Axis, _Axes, _MultiAxis

    orig_init = DimArray.__init__

    def init_hook(self, *args, **kwargs):
        orig_init(self, *args, **kwargs)
        if ENABLED:
            COUNTS['wf_init_hook'] += 1
            site = _site(2)
            SITES[site] += 1
            probs = wf_problems(self)
            if probs:
                note('C05', 'wf-init:' + site, "DimArray.__init__ (called from %s) produced an ill-formed array: %s" % (site, "; ".join(probs)))
    init_hook.__wrapped__ = orig_init
    init_hook.__doc__ = orig_init.__doc__
    DimArray.__init__ = init_hook

    orig_setitem = Dataset.__setitem__

    def setitem_hook(self, key, val):
        try:
            return orig_setitem(self, key, val)
        finally:
            if ENABLED:
                COUNTS['ds_setitem_hook'] += 1
                try:
                    probs = ds_problems(self)
                except Exception as e:  # monitor must not disturb
                    probs = ["monitor error %r" % (e,)]
                if probs:
                    note('C13', 'ds-setitem', "after Dataset.__setitem__(%r): %s" % (key, "; ".join(probs[:3])))
    setitem_hook.__wrapped__ = orig_setitem
    Dataset.__setitem__ = setitem_hook


def check_result(obj, where):
    """M-WF / M-DS on an object returned to a workload"""
    if obj is None:
        return
    if isinstance(obj, Dataset):
        COUNTS['ds_result_check'] += 1
        for p in ds_problems(obj)[:3]:
            note('C13' if 'axis object' in p or 'unknown to the dataset' in p else 'C05', 'result:' + where, "%s returned a Dataset with: %s" % (where, p))
    elif isinstance(obj, DimArray):
        COUNTS['wf_result_check'] += 1
        for p in wf_problems(obj)[:3]:
            note('C05', 'result:' + where, "%s returned an ill-formed DimArray: %s" % (where, p))
    elif isinstance(obj, (list, tuple)):
        for o in obj:
            if isinstance(o, (DimArray, Dataset)):
                check_result(o, where)


# sentinel metadata (M-META)
def sentinel_attrs():
    # a plain value, a mutable value, and an entry whose key looks private (e.g. CF's _FillValue): all are attrs content
    return {'vp_u': 'unit', 'vp_m': {'k': [1]}, '_vp_p': -999}


FILL_ATTRS = {'missing_value': -9999.0, '_FillValue': -9999.0}


def axis_sentinel(dim):
    return {'vp_ax': dim}


def meta_ok(obj, expect):
    """expect: 'carry' | 'drop' ; returns problem text or None"""
    attrs = _attrs_of(obj)
    if expect == 'carry':
        # (some operands also declare a missing value - FILL_ATTRS, see workloads.common.set_fillattrs - which is metadata like any other)
        core = {k: v for k, v in attrs.items() if not (k in FILL_ATTRS and v == FILL_ATTRS[k])}
        if freeze(core) != freeze(sentinel_attrs()):
            return "metadata not carried: attrs=%r" % (attrs,)
    elif expect == 'drop':
        if 'vp_u' in attrs or 'vp_m' in attrs or '_vp_p' in attrs or any(k in attrs for k in FILL_ATTRS):
            return "operand metadata leaked into result: attrs=%r" % (attrs,)
    return None


class Ctx(object):
    """per-case monitoring context: every call the workload makes on the library goes
    through `call`, which snapshots operands, runs the op, and applies M-IMM / M-WF /
    M-META.  `log` is the per-case event log (what a replay prints)."""

    def __init__(self):
        self.log = []
        self.viol = []

    ambient_on = None
    AMBIENT = {0: ('indexing.by', 'position', "an option about how [] indexes"),
               1: ('align.join', 'inner', "the join is the one the call asks for, outer by default: the library has never read this option")}

    def v(self, prop, key, msg):
        if self.ambient_on:
            msg += "  [this call ran while rcParams[%r] was %r - %s - restored right after]" % self.ambient_on
        self.viol.append({"property": prop, "key": key, "msg": msg})

    def call(self, label, fn, operands=(), mutates=(), meta=None, meta_src=None, containers=(), meta_owner='C16', ambient=False):
        """run fn(); operands: objects that must be left unchanged unless listed (by
        identity) in mutates; containers: the lists / dicts the operands were passed in, which
        must hold the very same objects afterwards.  Returns (result, exception).
        ambient=True (for operations that are not [] / take indexing): two such calls in four run while a session option that does
        not concern them has a non-default value (`indexing.by` = 'position', `align.join` = 'inner') - the operands were built
        before, under the defaults - and must answer the same."""
        import zlib
        self.ambient_on = self.AMBIENT.get(zlib.crc32(label.encode('utf8', 'replace')) % 4) if ambient else None
        if self.ambient_on:
            COUNTS['ambient_option_calls:' + self.ambient_on[0]] += 1
            from . import boot
            inner = fn
            opt, val = self.ambient_on[0], self.ambient_on[1]

            def fn():
                old = boot.da.rcParams[opt]
                boot.da.rcParams[opt] = val
                try:
                    return inner()
                finally:
                    boot.da.rcParams[opt] = old
        held = [(c, list(c.items()) if isinstance(c, dict) else list(c)) for c in containers if isinstance(c, (list, dict))]
        snaps = []
        for o in operands:
            if any(o is m for m in mutates):
                snaps.append(None)
            else:
                snaps.append(snapshot(o))
        res = exc = None
        try:
            res = fn()
        except Exception as e:
            exc = e
        COUNTS['calls'] += 1
        self.log.append((label, type(exc).__name__ if exc is not None else 'ok'))
        for o, s in zip(operands, snaps):
            if s is None:
                continue
            COUNTS['imm_operand_checks'] += 1
            after = snapshot(o)
            if after != s:
                self.v('C15', 'operand-mutated:' + label.split('(')[0],
                       "%s modified an operand: %s" % (label, describe_diff(s, after)))
        for c, items in held:
            COUNTS['imm_container_checks'] += 1
            now = list(c.items()) if isinstance(c, dict) else list(c)
            same = len(now) == len(items) and all((x[0] == y[0] and x[1] is y[1]) if isinstance(c, dict) else (x is y) for x, y in zip(now, items))
            if not same:
                self.v('C15', 'input-container-modified:' + label.split('(')[0],
                       "%s replaced the arrays in the %s it was given: it now holds %s" % (
                           label, type(c).__name__, [("%s%r" % (type(x).__name__, getattr(x, 'shape', None))) for x in (c.values() if isinstance(c, dict) else c)][:6]))
        if exc is None:
            check_result(res, label)
            if meta is not None and isinstance(res, (DimArray,)):
                COUNTS['meta_checks'] += 1
                p = meta_ok(res, meta)
                if p:
                    # C16 owns metadata propagation; a property whose own statement promises the metadata (C10, C18) owns it too
                    self.v(meta_owner, 'meta-%s:%s' % (meta, label.split('(')[0]), "%s: %s" % (label, p))
        self.viol.extend(drain())
        return res, exc
