"""Reference model.  Independent of dimarray: a labelled array is (values, dims, labels)
and every operation is defined on label coordinates with plain loops, so that a bug that
attaches correct numbers to wrong labels cannot hide behind a shared implementation detail.
Never imports dimarray."""
import itertools
import math
import numpy as np


class MA(object):
    """model array"""
    __slots__ = ("values", "dims", "labels")

    def __init__(self, values, dims, labels):
        self.values = np.asarray(values)
        self.dims = tuple(dims)
        self.labels = [list(l) for l in labels]
        assert self.values.ndim == len(self.dims) == len(self.labels), (self.values.shape, dims, labels)
        for i, l in enumerate(self.labels):
            assert len(l) == self.values.shape[i], (self.values.shape, dims, labels)

    @property
    def ndim(self):
        return len(self.dims)

    @property
    def shape(self):
        return self.values.shape

    def copy(self):
        return MA(self.values.copy(), self.dims, [list(l) for l in self.labels])

    def cells(self):
        """dict: coordinate tuple -> value"""
        out = {}
        for pos in itertools.product(*[range(n) for n in self.values.shape]):
            out[tuple(self.labels[d][p] for d, p in enumerate(pos))] = self.values[pos]
        return out

    def desc(self):
        return {"dims": list(self.dims), "labels": self.labels, "values": self.values}


def from_spec(sp):
    return MA(np.array(sp["values"], copy=True), sp["dims"], sp["labels"])


def observe(a):
    """model image of a real DimArray (labels via tolist so that they are python scalars)"""
    labs = []
    for ax in a.axes:
        v = ax.values
        labs.append(v.tolist())
    return MA(np.array(a.values, copy=True), a.dims, labs)


# ---------------------------------------------------------------------------------------
# comparisons
# ---------------------------------------------------------------------------------------
def isnan(x):
    return isinstance(x, (float, np.floating)) and x != x


def lab_eq(a, b, loose_tuple=False):
    if isinstance(a, (tuple, list)) and isinstance(b, (tuple, list)):
        if len(a) != len(b):
            return False
        return all(lab_eq(x, y) or (loose_tuple and str(x) == str(y)) for x, y in zip(a, b))
    if isnan(a) and isnan(b):
        return True
    try:
        r = a == b
        return bool(r)
    except Exception:
        return False


def labels_eq(la, lb, loose_tuple=False):
    return len(la) == len(lb) and all(lab_eq(x, y, loose_tuple) for x, y in zip(la, lb))


def values_eq(got, exp, rtol=0.0, atol=0.0):
    got = np.asarray(got)
    exp = np.asarray(exp)
    if got.shape != exp.shape:
        return False
    if got.size == 0:
        return True
    if got.dtype.kind == 'O' or exp.dtype.kind == 'O':
        for g, e in zip(got.ravel().tolist(), exp.ravel().tolist()):
            if not lab_eq(g, e):
                return False
        return True
    if got.dtype.kind in 'US' or exp.dtype.kind in 'US':
        return bool(np.all(got == exp))
    if rtol or atol:
        return bool(np.allclose(got, exp, rtol=rtol, atol=atol, equal_nan=True))
    try:
        return bool(np.array_equal(got, exp, equal_nan=True))
    except TypeError:
        return bool(np.array_equal(got, exp))


KIND_CLASS = {'b': 'bool', 'i': 'int', 'u': 'int', 'f': 'float', 'O': 'str', 'U': 'str', 'S': 'str', 'c': 'complex'}


def compare(got, exp, what="result", rtol=0.0, atol=0.0, dtype_kind=None, loose_tuple=False, labels=True):
    """got: MA (observed), exp: MA (model).  None if equal else text."""
    if tuple(got.dims) != tuple(exp.dims):
        return "%s: dims %r, expected %r" % (what, tuple(got.dims), tuple(exp.dims))
    if got.values.shape != exp.values.shape:
        return "%s: shape %r, expected %r" % (what, got.values.shape, exp.values.shape)
    if labels:
        for d, lg, le in zip(got.dims, got.labels, exp.labels):
            if not labels_eq(lg, le, loose_tuple):
                return "%s: labels of %r are %r, expected %r" % (what, d, lg, le)
    if not values_eq(got.values, exp.values, rtol, atol):
        return "%s: values %s, expected %s (dims %r, labels %r)" % (
            what, brief(got.values), brief(exp.values), tuple(exp.dims), exp.labels)
    if dtype_kind is not None:
        if KIND_CLASS.get(got.values.dtype.kind) != KIND_CLASS.get(dtype_kind, dtype_kind):
            return "%s: dtype %s, expected kind %s" % (what, got.values.dtype, dtype_kind)
    return None


def brief(v, n=24):
    v = np.asarray(v)
    l = v.ravel().tolist()
    s = repr(l[:n])
    return "%s%s%s" % (v.shape, s, "..." if len(l) > n else "")


# ---------------------------------------------------------------------------------------
# C01 / C02: label -> position
# ---------------------------------------------------------------------------------------
def locate(labels, val):
    """position of the first label equal to val; IndexError if absent (linear scan)"""
    for i, l in enumerate(labels):
        try:
            if l == val and not isinstance(l == val, np.ndarray):
                return i
        except Exception:
            pass
    raise IndexError("label %r not on axis %r" % (val, labels))


def locate_tol(labels, val, tol):
    """nearest label, first on ties, accepted iff distance <= tol"""
    best = None
    bestd = None
    for i, l in enumerate(labels):
        d = abs(l - val)
        if bestd is None or d < bestd:
            best, bestd = i, d
    if best is None:
        raise ValueError("empty axis")
    if bestd > tol:
        raise IndexError("no label within tol")
    return best


def is_numeric_labels(labels):
    return all(isinstance(l, (int, float, np.integer, np.floating)) and not isinstance(l, bool) for l in labels)


def direction(labels):
    """'inc', 'dec' or None for numeric labels (size<=1: 'inc'), weakly monotonic as the
    statement says 'monotonic (increasing or decreasing)'; unique labels make weak == strict"""
    n = len(labels)
    if n < 2:
        return 'inc'
    if all(labels[i + 1] >= labels[i] for i in range(n - 1)):
        return 'inc'
    if all(labels[i + 1] <= labels[i] for i in range(n - 1)):
        return 'dec'
    return None


def slice_positions(labels, start, stop, step):
    """positions selected by the label slice start:stop:step (C02 statement).
    Raises IndexError when a bound must be an existing label and is not."""
    n = len(labels)
    back = step is not None and step < 0
    k = abs(step) if step is not None else 1
    dirn = direction(labels) if is_numeric_labels(labels) else None
    if dirn is not None:
        # bounding box on a monotonic numeric axis, both bounds inclusive
        if not back:
            if dirn == 'inc':
                sel = [p for p in range(n) if (start is None or labels[p] >= start) and (stop is None or labels[p] <= stop)]
            else:
                sel = [p for p in range(n) if (start is None or labels[p] <= start) and (stop is None or labels[p] >= stop)]
            return sel[::k]
        else:
            if dirn == 'inc':
                sel = [p for p in range(n - 1, -1, -1) if (start is None or labels[p] <= start) and (stop is None or labels[p] >= stop)]
            else:
                sel = [p for p in range(n - 1, -1, -1) if (start is None or labels[p] >= start) and (stop is None or labels[p] <= stop)]
            return sel[::k]
    # strict: both bounds must be labels
    i = None if start is None else locate(labels, start)
    j = None if stop is None else locate(labels, stop)
    if not back:
        s = 0 if i is None else i
        e = n - 1 if j is None else j
        return list(range(s, e + 1))[::k]
    s = n - 1 if i is None else i
    e = 0 if j is None else j
    return list(range(s, e - 1, -1))[::k]


def take_positions(m, pos):
    """orthogonal selection: pos[d] is an int (drops the dim) or a list of ints.
    Returns MA, or a python scalar wrapped in 0-d MA when every dim is dropped."""
    v = m.values
    dims = []
    labs = []
    # go from the last dimension to the first so that positions stay valid
    for d in range(m.ndim - 1, -1, -1):
        p = pos[d]
        if isinstance(p, (int, np.integer)):
            v = np.take(v, int(p), axis=d)
        else:
            p = [int(q) for q in p]
            v = np.take(v, np.array(p, dtype=int), axis=d)
    for d in range(m.ndim):
        p = pos[d]
        if isinstance(p, (int, np.integer)):
            continue
        dims.append(m.dims[d])
        labs.append([m.labels[d][int(q)] for q in p])
    return MA(v, dims, labs)


# ---------------------------------------------------------------------------------------
# C04: label-wise arithmetic
# ---------------------------------------------------------------------------------------
def uniq_union(*label_lists):
    out = []
    for l in label_lists:
        for x in l:
            if not any(lab_eq(x, y) for y in out):
                out.append(x)
    return out


def lookup(m, coord_by_dim):
    """value of model array m at the label coordinate {dim: label}; dims m lacks are ignored.
    Returns (found, value)."""
    pos = []
    for d, lab in zip(m.dims, m.labels):
        c = coord_by_dim[d]
        for i, l in enumerate(lab):
            if lab_eq(l, c):
                pos.append(i)
                break
        else:
            return False, None
    return True, m.values[tuple(pos)]


def check_binop(got, a, b, ufunc, what="a op b"):
    """got: observed MA of `a op b`; a, b: model operands.  None or a message."""
    exp_dims = tuple(a.dims) + tuple(d for d in b.dims if d not in a.dims)
    if tuple(got.dims) != exp_dims:
        return "%s: dims %r, expected %r (first operand's dims, then the new ones)" % (what, tuple(got.dims), exp_dims)
    filled = False
    for d, lab in zip(got.dims, got.labels):
        srcs = [m.labels[m.dims.index(d)] for m in (a, b) if d in m.dims]
        un = uniq_union(*srcs)
        for i, x in enumerate(lab):
            if any(lab_eq(x, y) for y in lab[:i]):
                return "%s: label %r repeated on dimension %r: %r" % (what, x, d, lab)
        if len(lab) != len(un) or not all(any(lab_eq(x, y) for y in un) for x in lab):
            return "%s: labels of %r are %r, expected the union %r (each label once)" % (what, d, lab, un)
        if any(len(s) != len(un) for s in srcs):
            filled = True
    isint = a.values.dtype.kind in 'iu' and b.values.dtype.kind in 'iu'
    for pos in itertools.product(*[range(n) for n in got.values.shape]):
        coord = {d: got.labels[k][p] for k, (d, p) in enumerate(zip(got.dims, pos))}
        fa, va = lookup(a, coord)
        fb, vb = lookup(b, coord)
        if not fa:
            va = np.float64('nan')
        if not fb:
            vb = np.float64('nan')
        with np.errstate(all='ignore'):
            ev = ufunc(va, vb)
        gv = got.values[pos]
        if not (lab_eq(gv, ev) or (isnan(gv) and isnan(ev))):
            return "%s: value at %r is %r, expected %s(%r, %r) = %r" % (what, coord, gv, ufunc.__name__, va, vb, ev)
    if not filled and got.values.size:
        with np.errstate(all='ignore'):
            ek = ufunc(a.values.dtype.type(1), b.values.dtype.type(1)).dtype.kind
        if got.values.dtype.kind != ek:
            return "%s: dtype %s, expected kind %r (operand dtypes %s, %s; no missing labels)" % (what, got.values.dtype, ek, a.values.dtype, b.values.dtype)
    return None


# ---------------------------------------------------------------------------------------
# C06 / C07: align, reindex
# ---------------------------------------------------------------------------------------
def strict_dir(labels):
    """'inc' / 'dec' / None for a list with >= 2 labels; 'any' for fewer"""
    if len(labels) < 2:
        return 'any'
    try:
        if all(labels[i] < labels[i + 1] for i in range(len(labels) - 1)):
            return 'inc'
        if all(labels[i] > labels[i + 1] for i in range(len(labels) - 1)):
            return 'dec'
    except TypeError:
        pass
    return None


def has_label(lst, x):
    return any(lab_eq(x, y) for y in lst)


def check_cells_from_source(got, src, what, fill_nan=True, fill=None):
    """every cell of got equals the source cell at the same label coordinate, or the fill where
    the source does not define that coordinate; and every source cell whose labels all survive
    appears.  got.dims must equal src.dims."""
    if tuple(got.dims) != tuple(src.dims):
        return "%s: dims %r, expected %r" % (what, tuple(got.dims), tuple(src.dims))
    for pos in itertools.product(*[range(n) for n in got.values.shape]):
        coord = {d: got.labels[k][p] for k, (d, p) in enumerate(zip(got.dims, pos))}
        f, v = lookup(src, coord)
        g = got.values[pos]
        if f:
            if not lab_eq(g, v):
                return "%s: value at %r is %r, the input has %r there" % (what, coord, g, v)
        else:
            if fill_nan:
                if not isnan(g):
                    return "%s: value at %r is %r but the input has no such labels (expected NaN)" % (what, coord, g)
            elif not lab_eq(g, fill):
                return "%s: value at %r is %r, expected fill %r" % (what, coord, g, fill)
    return None


def reindex(m, new, axis, fill=float('nan')):
    """model of reindex_axis(new, axis): slice i of the result = source slice at the first
    position of new[i], else all-fill"""
    k = m.dims.index(axis) if isinstance(axis, str) else axis
    old = m.labels[k]
    idx = []
    for l in new:
        p = None
        for i, o in enumerate(old):
            if lab_eq(o, l):
                p = i
                break
        idx.append(p)
    missing = any(p is None for p in idx)
    v = m.values
    if missing:
        # loss-free promotion for the fill value
        fk = np.asarray(fill).dtype.kind
        if v.dtype.kind in 'iu' and fk == 'f':
            v = v.astype(float)
        elif v.dtype.kind == 'b' and fk != 'b':
            v = v.astype(object)
        elif v.dtype.kind in 'iu' and fk in 'iu' and not (np.iinfo(v.dtype).min <= int(fill) <= np.iinfo(v.dtype).max):
            v = v.astype(np.int64)          # a same-kind fill value the narrow type cannot hold: the data are widened, nothing wraps
        elif v.dtype.kind == 'f' and v.dtype.itemsize < 8 and fk == 'f' and fill == fill and float(v.dtype.type(fill)) != float(fill):
            v = v.astype(float)
    shape = list(v.shape)
    shape[k] = len(new)
    out = np.empty(shape, dtype=v.dtype)
    for i, p in enumerate(idx):
        sl = [slice(None)] * v.ndim
        sl[k] = i
        if p is None:
            out[tuple(sl)] = fill
        else:
            out[tuple(sl)] = np.take(v, p, axis=k)
    labs = [list(l) for l in m.labels]
    labs[k] = list(new)
    return MA(out, m.dims, labs), missing


# ---------------------------------------------------------------------------------------
# C10 / C11: coordinate map
# ---------------------------------------------------------------------------------------
def check_coordmap(got, src, what, introduced=()):
    """every element of got, looked up by label coordinates (dropping `introduced` dims and using
    the single label of dims src has but got lacks), equals the corresponding element of src"""
    fixed = {}
    for d, lab in zip(src.dims, src.labels):
        if d not in got.dims:
            if len(lab) != 1:
                return "%s: dimension %r (size %d) disappeared" % (what, d, len(lab))
            fixed[d] = lab[0]
    for d in got.dims:
        if d not in src.dims and d not in introduced:
            return "%s: unexpected dimension %r" % (what, d)
    for pos in itertools.product(*[range(n) for n in got.values.shape]):
        coord = dict(fixed)
        for k, (d, p) in enumerate(zip(got.dims, pos)):
            if d in src.dims:
                coord[d] = got.labels[k][p]
        f, v = lookup(src, coord)
        if not f:
            return "%s: coordinate %r of the result does not exist in the input" % (what, coord)
        if not lab_eq(got.values[pos], v):
            return "%s: element at %r is %r, the input has %r at that coordinate" % (what, coord, got.values[pos], v)
    return None
