"""One shard = one subprocess: runs the cases of one shard descriptor of one workload through
the workload's oracle with all monitors on and writes a JSON summary.

usage: python -m vp.shard <workload> <desc-json> <out-file>
       python -m vp.shard --replay <replay-file> <out-file>
"""
import sys
import os
import time
import json
import hashlib
import importlib
import traceback
import collections


def run(workload, desc, replay_case=None):
    from . import boot, monitors, codec
    t0 = time.time()
    da = boot.boot()
    W = importlib.import_module("vp.workloads." + workload.lower())
    boot.watch_anchors(getattr(W, "ANCHORS", []))
    rc0 = dict(da.rcParams)
    res = {"workload": workload, "desc": desc, "evaluations": 0, "classes": [], "class_examples": [],
           "samples": [], "violations": [], "relaxed": {}, "harness_errors": [], "outcomes": {}}
    classes = set()
    examples = {}
    relaxed = collections.Counter()
    outcomes = collections.Counter()
    perkey = collections.Counter()
    it = [replay_case] if replay_case is not None else W.cases(desc)
    deadline = t0 + float(desc.get("budget_s", 1e9))
    it = iter(it)
    while True:
        try:
            case = next(it)
        except StopIteration:
            break
        except Exception:
            res["harness_errors"].append({"tb": "generator: " + traceback.format_exc()[-2500:]})
            break
        if time.time() > deadline:
            res["budget_exhausted"] = True
            break
        ctx = monitors.Ctx()
        ctx.relaxed = relaxed
        ctx.outcomes = outcomes
        try:
            klass = W.check(case, ctx)
        except Exception:
            klass = None
            tb = traceback.format_exc()
            if len(res["harness_errors"]) < 5:
                res["harness_errors"].append({"case": codec.enc(case), "tb": tb[-3000:]})
            else:
                res["harness_errors"].append({"tb": tb[-300:]})
        ctx.viol.extend(monitors.drain())
        if dict(da.rcParams) != rc0:
            ctx.v(W.ID, "rcparams-leak", "rcParams changed by the case: %r" % ({k: v for k, v in da.rcParams.items() if rc0.get(k) != v},))
            da.rcParams.update(rc0)
        res["evaluations"] += 1
        if klass is not None:
            ks = klass if isinstance(klass, (list, set)) else [klass]
            for k in ks:
                k = str(k)
                if k not in classes:
                    classes.add(k)
                    if len(examples) < 40:
                        examples[k] = 1
        if len(res["samples"]) < 3 and (res["evaluations"] in (1, 7, 23) or replay_case is not None):
            res["samples"].append({"case": codec.enc(case), "log": ctx.log[:12]})
        for v in ctx.viol:
            kk = (v["property"], v["key"])
            perkey[kk] += 1
            if perkey[kk] <= 3 and len(res["violations"]) < 200:
                v = dict(v)
                v["workload"] = workload
                v["case"] = codec.enc(case)
                v["log"] = ctx.log[-12:]
                res["violations"].append(v)
    res["violation_counts"] = [[k[0], k[1], n] for k, n in perkey.items()]
    res["classes"] = sorted(hashlib.md5(k.encode()).hexdigest()[:12] for k in classes)
    res["class_examples"] = sorted(examples)[:40]
    res["relaxed"] = dict(relaxed)
    res["outcomes"] = dict(outcomes)
    res["monitor_events"] = dict(monitors.COUNTS)
    res["constructor_sites"] = dict(monitors.SITES)
    res["anchor_calls"] = boot.anchor_counts()
    res["lib_functions_entered"] = boot.lib_functions_entered()
    if os.environ.get("VERIF_FUNCMAP"):
        res["all_function_calls"] = boot.all_counts()
    res["wall_s"] = round(time.time() - t0, 3)
    res["repo"] = boot.REPO
    return res


def main(argv):
    from . import codec
    if argv[0] == "--replay":
        with open(argv[1]) as f:
            rp = json.load(f)
        res = run(rp["workload"], {"name": "replay"}, replay_case=codec.dec(rp["case"]))
        out = argv[2]
    else:
        workload, desc, out = argv[0], json.loads(argv[1]), argv[2]
        res = run(workload, desc)
    tmp = out + ".tmp"
    with open(tmp, "w") as f:
        json.dump(res, f)
    os.replace(tmp, out)


if __name__ == "__main__":
    main(sys.argv[1:])
