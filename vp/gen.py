"""Seeded generators.  Everything a generator returns is plain data (`spec` dicts with
ndarrays / lists) so that a case can be stored, replayed and classified."""
import numpy as np

DIMS = ['x', 'y', 'z', 'w', 't']
STR_POOL = list('abcdefghijklmnopqrstuv')
# str labels that read as numbers (years, codes, zero-padded ids): still strings - lexicographic order, exact match, str on disk
NUMSTR_POOL = ['9', '10', '100', '007', '1e3', '-2', '2.5', '42', '+1', '0', '1950', '800', '20', '3']
BIG = 20200000


def labels(rng, n, kind, order='inc', lo=None, off=0):
    """n unique labels of kind 'i' (int), 'f' (halves), 's' (str) as a python list"""
    if kind == 'i':
        base = sorted(off + v for v in rng.sample(range(-5, 30), n))
    elif kind == 'f':
        base = sorted(off + x / 2.0 for x in rng.sample(range(-10, 45), n))
    else:
        base = sorted(rng.sample(NUMSTR_POOL if rng.random() < 0.08 else STR_POOL, n))
    return reorder(rng, base, order)


def label_dtype(rng, lab, kind, p=0.1):
    """None (int64 / float64) or, for 10 % of the numeric axes, a narrower / unsigned dtype that holds the labels exactly"""
    if kind == 's' or not len(lab) or rng.random() >= p:
        return None
    lo, hi = min(lab), max(lab)
    if kind == 'i':
        cand = ['int32'] + (['int16'] if -2 ** 15 <= lo and hi < 2 ** 15 else []) + (['int8'] if -128 <= lo and hi < 128 else [])
        if lo >= 0:
            cand += (['uint8'] if hi < 256 else []) + (['uint16'] if hi < 2 ** 16 else []) + ['uint32', 'uint64']
        if not (-2 ** 31 <= lo and hi < 2 ** 31):
            return None
        return rng.choice(cand)
    if abs(lo) < 2 ** 20 and abs(hi) < 2 ** 20 and all(float(np.float32(v)) == v for v in lab):
        return 'float32'
    return None


def extremes(rng, l, lt, p=0.3):
    """the ends of a narrow integer type's range as labels (sentinels, full-range counters): neighbours further apart than the type can express"""
    if lt in ('int8', 'int16', 'int32') and len(l) > 1 and rng.random() < p:
        lo_, hi_ = min(l), max(l)
        ii = np.iinfo(lt)
        return [int(ii.min) if v == lo_ else int(ii.max) if v == hi_ else v for v in l]
    return l


def reorder(rng, base, order):
    base = list(base)
    if order == 'dec':
        base = base[::-1]
    elif order == 'shuf':
        rng.shuffle(base)
    return base


def absent_label(rng, lab, kind, where=None):
    """a label of the same kind not on the axis"""
    if kind == 's':
        cand = [c for c in STR_POOL + ['A', 'zz', 'ab'] if c not in lab]
        return rng.choice(cand)
    if kind == 'i':
        cand = [v for v in range(-8, 34) if v not in lab]
        return rng.choice(cand)
    cand = [v / 4.0 for v in range(-48, 100) if v / 4.0 not in lab]
    return rng.choice(cand)


def np_labels(lab, kind, ldtype=None):
    if kind == 'i':
        if ldtype is None and len(lab) and max(lab) >= 2 ** 63:
            ldtype = 'uint64'
        return np.array(lab, dtype=ldtype or np.int64)
    if kind == 'f':
        return np.array(lab, dtype=ldtype or np.float64)
    if kind == 'b':
        return np.array(lab, dtype=bool)
    a = np.empty(len(lab), dtype=object)
    for i, v in enumerate(lab):
        a[i] = v
    return a


def kind_of(lab):
    if any(isinstance(v, str) for v in lab):
        return 's'
    if any(isinstance(v, float) for v in lab):
        return 'f'
    return 'i'


def values(rng, shape, dtype='f', nan=0.0, lo=1, hi=4000):
    """distinct cell values (unique ids): a read identifies the cell it came from"""
    size = int(np.prod(shape)) if len(shape) else 1
    if dtype == 'b':
        v = np.array([rng.random() < 0.5 for _ in range(size)], dtype=bool)
        return v.reshape(shape)
    ids = rng.sample(range(lo, max(hi, lo + 2 * size)), size)
    if dtype == 'O':
        v = np.empty(size, dtype=object)
        for k, i in enumerate(ids):
            v[k] = "v%d" % i
        return v.reshape(shape)
    if dtype == 'i':
        return np.array(ids, dtype=np.int64).reshape(shape)
    v = np.array(ids, dtype=np.float64)
    if dtype == 'f2':
        v = v / 4.0
    if nan and size:
        for k in range(size):
            if rng.random() < nan:
                v[k] = np.nan
    return v.reshape(shape)


def spec(rng, ndim=None, dims=None, sizes=None, kinds=None, orders=None, dtype='f', nan=0.0,
         minsize=1, maxsize=4, maxdim=4, mindim=0, pool=None, distinct_sizes=False, narrow=True):
    pool = pool or DIMS
    if dims is None:
        if ndim is None:
            ndim = rng.randint(mindim, maxdim)
        dims = rng.sample(pool, ndim)
    dims = list(dims)
    n = len(dims)
    if sizes is None:
        if distinct_sizes:
            sizes = rng.sample(range(max(minsize, 1), max(minsize, 1) + max(n, maxsize - minsize + 1) + 1), n)
        else:
            sizes = [rng.randint(minsize, maxsize) for _ in dims]
    if kinds is None:
        kinds = [rng.choice('ifs') for _ in dims]
    elif isinstance(kinds, str) and len(kinds) != n:
        kinds = [rng.choice(kinds) for _ in dims]
    if orders is None:
        orders = [rng.choice(['inc', 'dec', 'shuf']) for _ in dims]
    elif isinstance(orders, str):
        orders = [orders] * n
    off = BIG if rng.random() < 0.12 else 0     # labels beyond 2**24: exact in 64-bit types only (dates written as integers)
    labs = [labels(rng, s, k, o, off=off) for s, k, o in zip(sizes, kinds, orders)]
    ldts = [label_dtype(rng, l, k) if narrow else None for l, k in zip(labs, kinds)]
    for j, (l, lt) in enumerate(zip(labs, ldts)):
        labs[j] = extremes(rng, l, lt)
    return {"dims": dims, "labels": labs, "kinds": list(kinds), "ldtypes": ldts,
            "values": values(rng, tuple(sizes), dtype, nan),
            # history: 30 % of the arrays have had their axes' ordering queried (as an earlier align / a + b would do),
            # so that lookups run with the monotonicity cache populated
            "prime": rng.random() < 0.3,
            # memory layout is not observable through the library's API: 15 % of the N-d arrays hold Fortran-ordered values
            "forder": n >= 2 and rng.random() < 0.15,
            # history: 12 % of the arrays reach their final labels / dimension names through in-place edits made after the axes have
            # been searched, sorted and addressed by name (whatever was cached on the way must not survive the edit)
            "history": rng.random() < 0.12}


def build(sp, meta=True, as_list=False):
    """real DimArray from a spec (imported lazily so that gen stays importable alone)"""
    from . import boot, monitors
    da = boot.boot()
    axes = []
    try:
        lts = sp.get("ldtypes") or [None] * len(sp["dims"])
        for d, lab, k, lt in zip(sp["dims"], sp["labels"], sp["kinds"], lts):
            ax = da.Axis(np_labels(lab, k, lt), d)
            if meta:
                ax.attrs.update(monitors.axis_sentinel(d))
            axes.append(ax)
        v = np.array(sp["values"], copy=True)
        if sp.get("forder") and v.ndim >= 2:
            v = np.asfortranarray(v)
        hist = bool(sp.get("history")) and not as_list and v.ndim >= 1 and all(len(l) for l in sp["labels"])
        if not hist:
            a = da.DimArray(v, axes=axes)
        else:
            # same values; the array first lives with the labels of every axis rotated by one and (N-d) the names of the first two
            # dimensions exchanged, is put to use, and reaches its final labels / names through legitimate in-place edits
            final_labels = [ax.values.copy() for ax in axes]
            final_names = [ax.name for ax in axes]
            first_names = list(final_names)
            if v.ndim >= 2:
                first_names[0], first_names[1] = final_names[1], final_names[0]
            first = []
            for ax, nm in zip(axes, first_names):
                ax0 = da.Axis(np.roll(ax.values, 1), nm)
                ax0.attrs.update(ax.attrs)
                first.append(ax0)
            a = da.DimArray(v, axes=first)
            variant = (sum(len(l) for l in sp["labels"]) + len(sp["dims"])) % 4
            def use(f):
                try:
                    f()
                except Exception:
                    pass        # judged by the property owning that operation
            l0 = a.axes[0].values[0]
            for f in (lambda: a + a.ix[::-1], lambda: a.mean(axis=0), lambda: a.sum(), lambda: a.max(axis=-1), lambda: a.cumsum(axis=0), lambda: a.T,
                      lambda: a.median(axis=0), lambda: a.argmax(),      # (whatever these bind or cache on the instance)
                      lambda: a.ix[0], lambda: a.iloc[0], lambda: a.loc[l0], lambda: a.nloc[l0], lambda: a.box[l0], lambda: a[l0],
                      lambda: a.sel({a.dims[0]: l0}), lambda: a.isel({a.dims[-1]: 0}), lambda: (a.dims, a.labels, a.shape),
                      lambda: getattr(a, a.dims[-1]), lambda: hasattr(a, 'units'), lambda: a.flatten(), lambda: a.flatten().unflatten(),
                      lambda: a.transpose(*reversed(a.dims)), lambda: a.swapaxes(a.dims[0], a.dims[-1]), lambda: a.rollaxis(a.dims[-1]),
                      lambda: a.newaxis('__n__'), lambda: a.squeeze(), lambda: a.copy(), lambda: a == a, lambda: da.align([a, a.ix[::-1]])):
                use(f)
            for ax in a.axes:
                lv = ax.values
                for f in (lambda: ax.is_monotonic(), lambda: a.take({ax.name: [lv[-1], lv[0]]}), lambda: a.take_axis([lv[0]], axis=ax.name),
                          lambda: a.sort_axis(axis=ax.name), lambda: a.reindex_axis(lv[::-1].copy(), axis=ax.name),
                          lambda: a.interp_axis([float(lv.min())], axis=ax.name) if (lv.dtype.kind in 'iuf' and lv.size > 1) else None,
                          lambda: a.diff(axis=ax.name), lambda: a.mean(axis=ax.name),
                          lambda: a.reindex_axis(lv[::-1].copy(), axis=ax.name)):      # (the last search made on this array's own label buffers)
                    use(f)
            if variant == 2:
                # the array handed out is a shallow copy of the used one (`copy(shallow=True)`: "to overwrite attributes without
                # affecting the initial array") that is given axes of its own; the used one stays as it was
                a_used = a
                a = a_used.copy(shallow=True)
                a.axes = [da.Axis(lab, nm) for lab, nm in zip(final_labels, final_names)]
                for ax, ax0 in zip(a.axes, first):
                    ax.attrs.update(ax0.attrs)
            elif variant == 3:
                # ... or the variable of a Dataset the used array was stored in, relabelled and renamed through the Dataset
                ds = da.Dataset()
                ds['v'] = a
                for nm0, lab in zip(first_names, final_labels):
                    ds.set_axis(lab, axis=nm0)
                if v.ndim >= 2:
                    ds.rename_axes({first_names[0]: '__tmp__'})
                    ds.rename_axes({first_names[1]: final_names[1]})
                    ds.rename_axes({'__tmp__': final_names[0]})
                a = ds['v']
            else:
                for ax, lab in zip(a.axes, final_labels):
                    ax[:] = lab                         # same dtype: written into the existing label buffer
                if v.ndim >= 2:
                    if variant == 0:
                        a.axes[0].name = '__tmp__'
                        a.axes[1].name = final_names[1]
                        a.axes[0].name = final_names[0]
                    else:
                        a.set_axis(name='__tmp__', axis=0, inplace=True)
                        a.set_axis(name=final_names[1], axis=1, inplace=True)
                        a.set_axis(name=final_names[0], axis=0, inplace=True)
    except Exception as e:
        # a well-formed (values, Axis objects) specification that the constructor refuses is a C05 matter
        # (the host workload then reports a harness error, i.e. is inconclusive)
        monitors.note('C05', 'build-raised:' + type(e).__name__,
                      "DimArray(values, axes=[Axis...]) raised %s: %s for dims=%r labels=%r shape=%r" % (
                          type(e).__name__, str(e)[:200], sp["dims"], sp["labels"], np.shape(sp["values"])))
        raise
    if meta:
        a.attrs.update(monitors.sentinel_attrs())
    if "attrs" in sp:
        a.attrs.update(sp["attrs"])
    if sp.get("prime"):
        for ax in a.axes:
            ax.is_monotonic()
    return a


def make_huge(sp, rng, p=0.5):
    """labels of uint64 axes moved beyond 2**63 (ids, hashes, nanosecond counters): exact only as unsigned 64-bit integers"""
    done = False
    for i, lt in enumerate(sp.get("ldtypes") or []):
        if lt == 'uint64' and rng.random() < p:
            sp["labels"][i] = [int(v) + 2 ** 63 for v in sp["labels"][i]]
            done = True
    return done
