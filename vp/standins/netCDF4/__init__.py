"""File-backed stand-in for the subset of netCDF4-python used by dimarray.io.nc.

netCDF4 (the C library binding) is absent from the sandbox and cannot be installed; properties
C19/C20 are decided against this module, which the harness puts on sys.path under the name
`netCDF4` before importing dimarray (see DESIGN.md, C19).  It models netCDF4-python 1.2.x:
ordered `dimensions` / `variables` maps, unlimited dimensions that grow on assignment, orthogonal
indexing (`_StartCountStride` rules: integer / boolean sequences per dimension, scalar ints drop
the dimension), masked arrays where a cell equals the fill value, vlen `str` variables only in
NETCDF4, no int64 in NETCDF3, attribute type restrictions.  The whole state is pickled to the file
on every mutation, so that closing / reopening / appending go through the file as with the real
library.

Behaviours that differ between netCDF4 releases are QUIRKS switches; the harness only reports a
violation that reproduces under every combination.
"""
import os, pickle, collections
import numpy as np
__version__ = "1.2.1-standin"
QUIRKS = {
    "scalar_shape1": False,       # reading a 0-d numeric variable returns shape (1,) (old releases) instead of ()
    "always_mask": False,         # numeric reads always return a MaskedArray (netCDF4 >= 1.4 default)
    "sorted_unique_seq": False,   # integer sequences must be sorted and free of duplicates (old releases)
}
default_fillvals = {'f8': 9.969209968386869e+36, 'f4': 9.969209968386869e+36, 'i8': -9223372036854775806, 'i4': -2147483647, 'i2': -32767, 'i1': -127, 'u1': 255}
_FORMATS = ('NETCDF4','NETCDF4_CLASSIC','NETCDF3_CLASSIC','NETCDF3_64BIT')

class Dimension(object):
    def __init__(self, ds, name, size):
        self._ds = ds; self._name = name
        self._unlimited = size is None or size == 0
        self._size = 0 if self._unlimited else int(size)
    @property
    def name(self): return self._name
    @property
    def size(self): return self._size
    def __len__(self): return self._size
    def isunlimited(self): return self._unlimited

class _Attrs(object):
    _reserved = ()
    def setncattr(self, name, value):
        self._check_writable()
        if isinstance(value, bool): raise TypeError("illegal data type for attribute %r, must be one of dict_keys(['S1','i1',...]), got b1" % name)
        if isinstance(value, dict) or value is None: raise TypeError("illegal data type for attribute")
        if isinstance(value, (list, tuple)):
            arr = np.asarray(value)
            if arr.dtype.kind in 'OU' and not all(isinstance(v, str) for v in value): raise TypeError("illegal data type for attribute")
            value = arr if arr.dtype.kind not in 'U' else list(value)
        self.__dict__['_attrs'][name] = value
        self._sync()
    def getncattr(self, name):
        try: return self.__dict__['_attrs'][name]
        except KeyError: raise AttributeError("NetCDF: Attribute not found: "+name)
    def delncattr(self, name):
        self._check_writable()
        try: del self.__dict__['_attrs'][name]
        except KeyError: raise AttributeError("NetCDF: Attribute not found: "+name)
        self._sync()
    def ncattrs(self): return list(self.__dict__['_attrs'].keys())
    def __getattr__(self, name):
        if name.startswith('__') : raise AttributeError(name)
        attrs = self.__dict__.get('_attrs', {})
        if name in attrs: return attrs[name]
        raise AttributeError(name)
    def __setattr__(self, name, value):
        if name.startswith('_') or name in self._reserved: object.__setattr__(self, name, value)
        else: self.setncattr(name, value)

class Variable(_Attrs):
    _reserved = ()
    def __init__(self, ds, name, dtype, dimensions, fill_value=None):
        d = self.__dict__
        d['_ds']=ds; d['_name']=name; d['_dimensions']=tuple(dimensions); d['_attrs']=collections.OrderedDict()
        if dtype is str:
            d['_dtype']=str; npdt = np.dtype(object); fv = ''
        else:
            npdt = np.dtype(dtype)
            if npdt.kind in 'OSU': raise TypeError("illegal primitive data type, use str for vlen strings")
            if npdt.kind == 'b': raise TypeError("illegal primitive data type, must be one of ..., got bool")
            if ds.file_format.startswith('NETCDF3') and npdt == np.dtype('int64'): raise ValueError("NetCDF: Invalid datatype for classic model: int64")
            d['_dtype']=npdt
            fv = fill_value if fill_value is not None else default_fillvals.get(npdt.str[1:], 0)
            if fill_value is not None: d['_attrs']['_FillValue'] = np.array(fill_value, dtype=npdt)[()]
        d['_npdtype']=npdt; d['_fill']=fv
        shape = tuple(len(ds.dimensions[dn]) for dn in d['_dimensions'])
        d['_data'] = np.full(shape, fv, dtype=npdt)
    def _check_writable(self): self._ds._check_writable()
    def _sync(self): self._ds._sync()
    @property
    def name(self): return self._name
    @property
    def dimensions(self): return self._dimensions
    @property
    def dtype(self): return self._dtype
    @property
    def ndim(self): return len(self._dimensions)
    @property
    def shape(self): return tuple(len(self._ds.dimensions[dn]) for dn in self._dimensions)
    @property
    def size(self): return int(np.prod(self.shape))
    def __len__(self):
        if not self._dimensions: raise TypeError("len() of unsized object")
        return self.shape[0]
    def _resize(self):
        shape = self.shape
        if self._data.shape != shape:
            new = np.full(shape, self._fill, dtype=self._npdtype)
            sl = tuple(slice(0, min(a,b)) for a,b in zip(shape, self._data.shape))
            new[sl] = self._data[sl]
            self.__dict__['_data'] = new
    def _normkey(self, key, grow=False):
        if isinstance(key, list) and not all(isinstance(e,(int,np.integer)) for e in key): key = tuple(key)
        if not isinstance(key, tuple): key = (key,)
        nd = self.ndim
        out=[]; seen_ell=False
        n_real = sum(1 for k in key if k is not Ellipsis)
        for k in key:
            if k is Ellipsis:
                if seen_ell: raise IndexError("an index can only have a single ellipsis")
                seen_ell=True; out.extend([slice(None)]*(nd-n_real))
            else: out.append(k)
        if len(out) > nd: raise IndexError("too many indices: variable %s has %d dimensions" % (self._name, nd)) if nd else IndexError("too many indices")
        out.extend([slice(None)]*(nd-len(out)))
        return out
    def _positions(self, key, grow=False):
        """per-dimension (positions array, drop flag); orthogonal semantics"""
        res=[]
        for i,(k,dn) in enumerate(zip(key, self._dimensions)):
            dim = self._ds.dimensions[dn]; n = len(dim)
            can_grow = grow and dim.isunlimited()
            if isinstance(k, slice):
                if can_grow and k.stop is not None and k.stop > n and (k.step is None or k.step>0):
                    pos = np.arange(k.start or 0, k.stop, k.step or 1)
                else:
                    pos = np.arange(*k.indices(n))
                res.append((pos, False)); continue
            arr = np.asarray(k)
            if arr.ndim == 0:
                if arr.dtype.kind == 'b': raise IndexError("boolean scalar index not supported")
                if arr.dtype.kind not in 'iu': raise IndexError("Index cannot be a float/str: %r" % (k,))
                p = int(arr)
                if p < 0: p += n
                if p < 0 or (p >= n and not can_grow): raise IndexError("index exceeds dimension bounds")
                res.append((np.array([p]), True)); continue
            if arr.ndim != 1: raise IndexError("Index cannot be multidimensional")
            if arr.dtype.kind == 'b':
                if arr.shape[0] != n: raise IndexError("Boolean array must have the same shape as the data along this dimension")
                res.append((np.nonzero(arr)[0], False)); continue
            if arr.size == 0: res.append((np.zeros(0,dtype=int), False)); continue
            if arr.dtype.kind not in 'iu': raise IndexError("only integers, slices, ellipsis, and 1-d integer or boolean arrays are valid indices")
            pos = arr.astype(int).copy(); pos[pos<0] += n
            if QUIRKS["sorted_unique_seq"] and pos.size > 1 and not np.all(np.diff(pos) > 0):
                raise IndexError("integer sequences in slices must be sorted and cannot have duplicates")
            if (pos<0).any() or ((pos>=n).any() and not can_grow): raise IndexError("integer index exceeds dimension size")
            res.append((pos, False))
        return res
    def __getitem__(self, key):
        self._ds._check_open()
        key = self._normkey(key); self._resize()
        pp = self._positions(key)
        if self.ndim == 0:
            out = self._data.copy()
            if QUIRKS["scalar_shape1"] and self._dtype is not str:
                out = out.reshape(1)
        else:
            out = self._data[np.ix_(*[p for p,_ in pp])]
            out = out.reshape([len(p) for p,drop in pp if not drop])
        if self._dtype is str:
            if out.ndim == 0: return out[()]
            return out
        fv = self._attrs.get('_FillValue', self._attrs.get('missing_value', self._fill))
        mask = (out == fv)
        if np.any(mask) or QUIRKS["always_mask"]: out = np.ma.MaskedArray(out, mask=mask, fill_value=fv)
        return out
    def __setitem__(self, key, value):
        self._ds._check_open(); self._check_writable()
        key = self._normkey(key); self._resize()
        # open-ended slices along an unlimited dimension take their length from the data (v[:] = data grows the dimension)
        kept = [i for i, k in enumerate(key) if isinstance(k, slice) or np.ndim(k) > 0]
        vshape = np.shape(value)
        if len(vshape) == len(kept):
            for j, i in enumerate(kept):
                k = key[i]; dim = self._ds.dimensions[self._dimensions[i]]
                if isinstance(k, slice) and k.stop is None and (k.step is None or k.step == 1) and dim.isunlimited():
                    start = k.start or 0
                    if start >= 0 and start + vshape[j] > len(dim):
                        key[i] = slice(start, start + vshape[j], None)
        pp = self._positions(key, grow=True)
        # grow unlimited dimensions
        grew=False
        for (pos,_),dn in zip(pp, self._dimensions):
            dim = self._ds.dimensions[dn]
            if pos.size and pos.max() >= len(dim):
                dim._size = int(pos.max())+1; grew=True
        if grew:
            for v in self._ds.variables.values(): v._resize()
        if isinstance(value, np.ma.MaskedArray): value = value.filled(self._fill)
        if self._dtype is str:
            val = np.asarray(value, dtype=object)
            if not all(isinstance(x, str) for x in val.ravel().tolist()): raise TypeError("only strings can be assigned to a vlen str variable")
        else:
            val = np.asarray(value)
            if val.dtype.kind in 'OUS': raise TypeError("cannot assign non-numeric data to variable %s of type %s" % (self._name, self._npdtype))
            val = val.astype(self._npdtype)
        if self.ndim == 0:
            if val.size != 1: raise IndexError("size of data array does not conform to slice")
            self._data[()] = val.reshape(())[()]
        else:
            tgt_shape = [len(p) for p,_ in pp]
            kept = [len(p) for p,drop in pp if not drop]
            try:
                vb = np.broadcast_to(val, kept) if val.shape != tuple(tgt_shape) else val
            except ValueError:
                if val.size == int(np.prod(kept)): vb = val.reshape(kept)
                else: raise IndexError("size of data array does not conform to slice")
            self._data[np.ix_(*[p for p,_ in pp])] = np.asarray(vb).reshape(tgt_shape)
        self._sync()

class _VarDict(collections.OrderedDict):
    pass

class Dataset(_Attrs):
    _reserved = ()
    def __init__(self, filename, mode='r', clobber=True, format='NETCDF4', diskless=False, persist=False, **kw):
        d = self.__dict__
        if format not in _FORMATS: raise ValueError("format must be one of %s" % (_FORMATS,))
        if mode in ('r+',): mode='a'
        if mode not in ('r','w','a'): raise ValueError("mode must be 'w', 'r', 'a' or 'r+', got %r" % mode)
        d['_filename']=filename; d['_mode']=mode; d['_isopen']=True
        d['_attrs']=collections.OrderedDict(); d['dimensions']=collections.OrderedDict(); d['variables']=_VarDict()
        d['file_format']=format; d['data_model']=format
        if mode == 'w':
            if os.path.exists(filename) and not clobber: raise IOError("NetCDF: File exists && NC_NOCLOBBER: %r" % filename)
            self._sync()
        else:
            if not os.path.exists(filename): raise IOError("No such file or directory: %r" % filename)
            with open(filename,'rb') as f: st = pickle.load(f)
            d['file_format']=st['format']; d['data_model']=st['format']
            d['_attrs']=st['attrs']
            for name,(size,unl) in st['dims'].items():
                dim = Dimension(self, name, None if unl else size); dim._size=size; self.dimensions[name]=dim
            for name,vs in st['vars'].items():
                v = Variable.__new__(Variable); v.__dict__.update(vs); v.__dict__['_ds']=self; self.variables[name]=v
    def _check_open(self):
        if not self._isopen: raise RuntimeError("NetCDF: Not a valid ID")
    def _check_writable(self):
        self._check_open()
        if self._mode == 'r': raise RuntimeError("NetCDF: Write to read only")
    def _sync(self):
        if self._mode == 'r' or not self._isopen: return
        st = dict(format=self.file_format, attrs=self._attrs, dims=collections.OrderedDict((n,(len(dm), dm.isunlimited())) for n,dm in self.dimensions.items()),
                  vars=collections.OrderedDict((n, {k:v for k,v in var.__dict__.items() if k!='_ds'}) for n,var in self.variables.items()))
        tmp = self._filename + '.tmp'
        with open(tmp,'wb') as f: pickle.dump(st, f)
        os.replace(tmp, self._filename)
    def sync(self): self._sync()
    def close(self):
        self._check_open(); self._sync(); self.__dict__['_isopen']=False
    def isopen(self): return self._isopen
    def __enter__(self): return self
    def __exit__(self, *a): self.close()
    def filepath(self): return self._filename
    def createDimension(self, name, size=None):
        self._check_writable()
        if name in self.dimensions: raise RuntimeError("NetCDF: String match to name in use")
        if (size is None or size == 0) and self.file_format.startswith('NETCDF3') and any(dm.isunlimited() for dm in self.dimensions.values()):
            raise RuntimeError("NetCDF: NC_UNLIMITED size already in use")
        self.dimensions[name] = Dimension(self, name, size); self._sync(); return self.dimensions[name]
    def createVariable(self, varname, datatype, dimensions=(), zlib=False, complevel=4, shuffle=True, fletcher32=False, contiguous=False, chunksizes=None, endian='native', least_significant_digit=None, fill_value=None, **kw):
        self._check_writable()
        if varname in self.variables: raise RuntimeError("NetCDF: String match to name in use")
        if isinstance(dimensions, str): dimensions=(dimensions,)
        for dn in dimensions:
            if dn not in self.dimensions: raise KeyError("dimension %s not defined in group" % dn)
        if datatype is str and self.file_format != 'NETCDF4': raise ValueError("Variable length strings are only supported for the NETCDF4 format")
        v = Variable(self, varname, datatype, dimensions, fill_value=fill_value)
        self.variables[varname]=v; self._sync(); return v
    def renameVariable(self, old, new):
        self._check_writable()
        items = [(new if k==old else k, v) for k,v in self.variables.items()]
        self.variables.clear(); self.variables.update(items); self.variables[new].__dict__['_name']=new; self._sync()
    def renameDimension(self, old, new):
        self._check_writable()
        items = [(new if k==old else k, v) for k,v in self.dimensions.items()]
        self.dimensions.clear(); self.dimensions.update(items); self.dimensions[new]._name=new
        for v in self.variables.values(): v.__dict__['_dimensions']=tuple(new if dn==old else dn for dn in v._dimensions)
        self._sync()
