"""JSON codec for cases, witnesses and replay files.

Cases are plain Python data enriched with ndarrays, slices, tuples, Ellipsis, NumPy
scalars, sets and dicts with non-string keys; `enc` turns them into JSON-able
structures and `dec` restores them exactly (dtype included), so that a replay file
rebuilds the very case that failed.
"""
import json
import math
import numpy as np


def enc(o):
    if o is None or isinstance(o, (bool, str)):
        return o
    if isinstance(o, int) and not isinstance(o, np.generic):
        return o
    if isinstance(o, float) and not isinstance(o, np.generic):
        return o
    if o is Ellipsis:
        return {"__ell__": 1}
    if isinstance(o, np.ndarray):
        if o.dtype.kind == 'O':
            return {"__nd__": "O", "shape": list(o.shape), "v": [enc(x) for x in o.ravel().tolist()]}
        return {"__nd__": o.dtype.str, "shape": list(o.shape), "v": [enc(x) for x in o.ravel().tolist()]}
    if isinstance(o, np.generic):
        return {"__np__": o.dtype.str, "v": enc(o.item())}
    if isinstance(o, slice):
        return {"__slice__": [enc(o.start), enc(o.stop), enc(o.step)]}
    if isinstance(o, tuple):
        return {"__tuple__": [enc(x) for x in o]}
    if isinstance(o, (set, frozenset)):
        return {"__set__": [enc(x) for x in sorted(o, key=repr)]}
    if isinstance(o, list):
        return [enc(x) for x in o]
    if isinstance(o, dict):
        if all(isinstance(k, str) and not k.startswith("__") for k in o):
            return {k: enc(v) for k, v in o.items()}
        return {"__dict__": [[enc(k), enc(v)] for k, v in o.items()]}
    if isinstance(o, complex):
        return {"__complex__": [o.real, o.imag]}
    return {"__repr__": repr(o)}


def dec(o):
    if isinstance(o, list):
        return [dec(x) for x in o]
    if isinstance(o, dict):
        if "__ell__" in o:
            return Ellipsis
        if "__nd__" in o:
            dt = o["__nd__"]
            vals = [dec(x) for x in o["v"]]
            if dt == "O":
                a = np.empty(len(vals), dtype=object)
                for i, x in enumerate(vals):
                    a[i] = x
            else:
                a = np.array(vals, dtype=np.dtype(dt))
            return a.reshape(o["shape"])
        if "__np__" in o:
            return np.dtype(o["__np__"]).type(dec(o["v"]))
        if "__slice__" in o:
            return slice(*[dec(x) for x in o["__slice__"]])
        if "__tuple__" in o:
            return tuple(dec(x) for x in o["__tuple__"])
        if "__set__" in o:
            return set(dec(x) for x in o["__set__"])
        if "__dict__" in o:
            return {dec(k): dec(v) for k, v in o["__dict__"]}
        if "__complex__" in o:
            return complex(*o["__complex__"])
        if "__repr__" in o:
            return o["__repr__"]
        return {k: dec(v) for k, v in o.items()}
    return o


def dumps(o, **kw):
    return json.dumps(enc(o), **kw)


def loads(s):
    return dec(json.loads(s))


def short(o, n=300):
    """compact one-line rendering for messages"""
    try:
        s = json.dumps(enc(o), separators=(',', ':'))
    except Exception:
        s = repr(o)
    return s if len(s) <= n else s[:n] + "..."
