"""Process set-up for every shard: import the repository under test from its current
working tree, install the always-on monitors and the anchor-call counters.

Nothing here edits /repo: the hooks are wrappers installed from the harness at import
time (DimArray.__init__, Dataset.__setitem__) plus sys.monitoring PY_START counters.
"""
import os
import sys
import faulthandler
import warnings

VERIF = os.path.dirname(os.path.dirname(os.path.abspath(__file__)))
REPO = os.path.abspath(os.environ.get("VERIF_REPO", "/repo"))

_booted = False
da = None


def boot():
    """import dimarray from REPO (never from a model or an installed copy)"""
    global _booted, da
    if _booted:
        return da
    faulthandler.enable()
    warnings.simplefilter("ignore")
    standins = os.path.join(VERIF, "vp", "standins")
    for p in (standins, REPO):
        if p in sys.path:
            sys.path.remove(p)
        sys.path.insert(0, p)
    # guard variable for source hooks (none are needed so far; kept for MANIFEST.hooks)
    os.environ.setdefault("DIMARRAY_VERIF", "1")
    import io
    import contextlib
    with contextlib.redirect_stdout(io.StringIO()):
        import dimarray
    here = os.path.abspath(dimarray.__file__)
    if not here.startswith(REPO + os.sep):
        raise RuntimeError("dimarray imported from %s, expected under %s" % (here, REPO))
    da = dimarray
    _booted = True
    from . import monitors
    monitors.install(dimarray)
    return da


# ---------------------------------------------------------------------------------------
# anchor call counters (sys.monitoring, Python 3.12): proof that a workload reached the
# functions the property is anchored in.  Non-anchor code objects are DISABLEd after their
# first event, so the overhead is confined to the anchored functions.
# ---------------------------------------------------------------------------------------
_anchor_counts = {}
_lib_functions = set()
_all_counts = {}
_anchor_names = set()
_TOOL = None


def watch_anchors(names):
    """names: iterable of 'module_basename.function' e.g. 'indexing.locate_one'"""
    global _TOOL
    _anchor_names.update(names)
    for n in names:
        _anchor_counts.setdefault(n, 0)
    mon = getattr(sys, "monitoring", None)
    if mon is None or _TOOL is not None:
        return
    prefix = os.path.join(REPO, "dimarray") + os.sep
    _TOOL = 3
    try:
        mon.use_tool_id(_TOOL, "vp-anchors")
    except ValueError:
        _TOOL = None
        return

    funcmap = bool(os.environ.get("VERIF_FUNCMAP"))

    def on_start(code, offset):
        fn = code.co_filename
        if not fn.startswith(prefix):
            return mon.DISABLE
        _lib_functions.add((fn, code.co_firstlineno))         # every library function entered at least once (whatever its name)
        key = os.path.splitext(os.path.basename(fn))[0] + "." + code.co_name
        if funcmap:
            # development mode (tools/automutate.py): count every function of the library that the workload reaches
            _all_counts[key] = _all_counts.get(key, 0) + 1
            if key in _anchor_names:
                _anchor_counts[key] += 1
            return None
        if key in _anchor_names:
            _anchor_counts[key] += 1
            return None
        q = getattr(code, "co_qualname", code.co_name)
        key2 = os.path.splitext(os.path.basename(fn))[0] + "." + q
        if key2 in _anchor_names:
            _anchor_counts[key2] += 1
            return None
        return mon.DISABLE

    mon.register_callback(_TOOL, mon.events.PY_START, on_start)
    mon.set_events(_TOOL, mon.events.PY_START)


def anchor_counts():
    return dict(_anchor_counts)


def all_counts():
    return dict(_all_counts)


def lib_functions_entered():
    return len(_lib_functions)
