"""./check <ID> [--tier quick|thorough] [--seed N] [--replay file] [--jobs N]

Splits the property's case space into shards, runs each shard in its own subprocess
(subprocess.run with a timeout; never multiprocessing.Pool), merges what the monitors
observed, classifies violations against known_findings.json, writes evidence/<ID>.json and
exits 0 (held on what was observed) / 1 (violated, with replay files) / 2 (inconclusive).
"""
import sys
import os
import json
import time
import shutil
import tempfile
import argparse
import importlib
import subprocess
import collections
from concurrent.futures import ThreadPoolExecutor

VERIF = os.path.dirname(os.path.dirname(os.path.abspath(__file__)))
PY = os.environ.get("VERIF_PYTHON", "/venv/bin/python")
if not os.path.exists(PY):
    PY = sys.executable


def child_env():
    env = dict(os.environ)
    env["PYTHONHASHSEED"] = "0"
    env["PYTHONPATH"] = VERIF + os.pathsep + env.get("PYTHONPATH", "")
    env["PYTHONDONTWRITEBYTECODE"] = "1"
    env.setdefault("OMP_NUM_THREADS", "1")
    env.setdefault("OPENBLAS_NUM_THREADS", "1")
    return env


def run_shard(workload, desc, outdir, idx, timeout):
    out = os.path.join(outdir, "shard-%s-%d.json" % (workload, idx))
    cmd = [PY, "-m", "vp.shard", workload, json.dumps(desc), out]
    t0 = time.time()
    try:
        p = subprocess.run(cmd, cwd=VERIF, env=child_env(), timeout=timeout,
                           stdout=subprocess.PIPE, stderr=subprocess.PIPE)
    except subprocess.TimeoutExpired:
        return {"workload": workload, "desc": desc, "failed": "timeout after %ss" % timeout}
    if p.returncode != 0 or not os.path.exists(out):
        return {"workload": workload, "desc": desc,
                "failed": "exit %s: %s" % (p.returncode, (p.stderr or b"").decode(errors="replace")[-1500:])}
    with open(out) as f:
        r = json.load(f)
    os.remove(out)
    r["shard_wall_s"] = round(time.time() - t0, 2)
    return r


def load_workload(name):
    return importlib.import_module("vp.workloads." + name.lower())


def main(argv=None):
    ap = argparse.ArgumentParser()
    ap.add_argument("prop")
    ap.add_argument("--tier", default=os.environ.get("VERIF_TIER") or "quick", choices=["quick", "thorough"])
    ap.add_argument("--seed", type=int, default=int(os.environ.get("VERIF_SEED") or 0))
    ap.add_argument("--replay")
    ap.add_argument("--jobs", type=int, default=int(os.environ.get("VERIF_JOBS") or min(16, os.cpu_count() or 4)))
    ap.add_argument("--no-evidence", action="store_true")
    ap.add_argument("--scale", type=float, default=float(os.environ.get("VERIF_SCALE") or 1.0),
                    help="multiply random-case counts (used by long sweeps)")
    args = ap.parse_args(argv)
    pid = args.prop.upper()
    sys.path.insert(0, VERIF)
    from . import findings

    if args.replay:
        return replay(pid, args.replay)

    W = load_workload(pid)
    t0 = time.time()
    plan = []   # (workload name, desc)
    for d in W.shards(args.tier, args.seed, args.scale):
        plan.append((pid, d))
    for gname, frac in getattr(W, "GUESTS", []):
        G = load_workload(gname)
        gs = [d for d in G.shards(args.tier, args.seed, args.scale) if d.get("guest_ok", True)]
        # fewer, larger guest shards (process start-up dominates tiny shards): keep every 4th random shard with 4x the cases
        rand = [d for d in gs if d.get("kind") == "rand"]
        keep = set(id(d) for i, d in enumerate(rand) if i % 4 == 0)
        mult = len(rand) / float(max(1, len(keep)))
        gs = [d for d in gs if d.get("kind") != "rand" or id(d) in keep]
        for d in gs:
            d = dict(d)
            if "n" in d:
                d["n"] = max(1, int(d["n"] * frac * (mult if d.get("kind") == "rand" else 1)))
            elif "budget_s" not in d:
                d["frac"] = frac
            d["guest_of"] = pid
            plan.append((gname.upper(), d))
    tmo = 900 if args.tier == "quick" else 7200
    outdir = tempfile.mkdtemp(prefix="vp-%s-" % pid)
    results = []
    try:
        with ThreadPoolExecutor(max_workers=args.jobs) as ex:
            futs = [ex.submit(run_shard, w, d, outdir, i, d.get("timeout", tmo)) for i, (w, d) in enumerate(plan)]
            for f in futs:
                results.append(f.result())
    finally:
        shutil.rmtree(outdir, ignore_errors=True)

    # ---------------------------------------------------------------- merge
    failed = [r for r in results if "failed" in r]
    ok = [r for r in results if "failed" not in r]
    own = [r for r in ok if r["workload"] == pid]
    evaluations = sum(r["evaluations"] for r in ok)
    own_evals = sum(r["evaluations"] for r in own)
    classes = set()
    for r in ok:
        classes.update("%s:%s" % (r["workload"], c) for c in r["classes"])
    class_examples = []
    for r in own:
        for c in r["class_examples"]:
            if c not in class_examples and len(class_examples) < 25:
                class_examples.append(c)
    def summed(key):
        c = collections.Counter()
        for r in ok:
            for k, v in (r.get(key) or {}).items():
                c[k] += v
        return dict(c)
    monitor_events = summed("monitor_events")
    anchors = summed("anchor_calls")
    sites = summed("constructor_sites")
    relaxed = summed("relaxed")
    outcomes = summed("outcomes")
    harness = [h for r in ok for h in r.get("harness_errors", [])]
    samples = []
    for r in own:
        for s in r["samples"]:
            if len(samples) < 4:
                samples.append(s)
    if not samples:
        for r in ok:
            for s in r["samples"][:1]:
                if len(samples) < 3:
                    samples.append(s)

    # ---------------------------------------------------------------- violations
    viols_own, viols_cross = [], []
    counts = collections.Counter()
    for r in ok:
        for p, k, n in r.get("violation_counts", []):
            counts[(p, k)] += n
        for v in r["violations"]:
            (viols_own if v["property"] == pid else viols_cross).append(v)
    kf = findings.load()
    known_hits = collections.OrderedDict()
    unknown = collections.OrderedDict()
    for v in viols_own:
        f = findings.classify(kf, v)
        if f is not None:
            known_hits.setdefault(f["key"], {"finding": f, "n": 0, "example": v})
            known_hits[f["key"]]["n"] += 1
        else:
            unknown.setdefault(v["key"], []).append(v)
    n_own_total = sum(n for (p, k), n in counts.items() if p == pid)

    lines = []
    exit_code = 0
    os.makedirs(os.path.join(VERIF, "replay"), exist_ok=True)
    for key, h in known_hits.items():
        lines.append("KNOWN-FINDING: property=%s %s [%s; seen %d time(s) this run; e.g. %s]" % (
            pid, h["finding"]["what"], key, h["n"], h["example"]["msg"][:200].replace("\n", " ")))
    replay_files = []
    for i, (key, vs) in enumerate(unknown.items()):
        if i >= 12:
            break
        v = vs[0]
        path = os.path.join(VERIF, "replay", "%s-%d.json" % (pid, i))
        with open(path, "w") as f:
            json.dump({"property": pid, "workload": v["workload"], "key": key, "msg": v["msg"],
                       "case": v["case"], "log": v.get("log"), "seed": args.seed, "tier": args.tier}, f, indent=1)
        replay_files.append(path)
        lines.append("VIOLATION property=%s replay=%s" % (pid, path))
        lines.append("  witness[%s] (%d occurrence(s)): %s" % (key, counts.get((pid, key), len(vs)), v["msg"][:600].replace("\n", " ")))
        exit_code = 1
    cross_seen = collections.Counter((v["property"], v["key"]) for v in viols_cross)
    for (p, k), n in list(cross_seen.items())[:10]:
        lines.append("NOTE cross-property observation property=%s key=%s (decided by ./check %s, not by this check)" % (p, k, p))

    # ---------------------------------------------------------------- conclusiveness
    inconclusive = []
    if failed:
        inconclusive.append("%d shard(s) failed: %s" % (len(failed), failed[0]["failed"][:300]))
    if harness:
        inconclusive.append("%d harness error(s): %s" % (len(harness), harness[0]["tb"][-400:]))
    floors = getattr(W, "FLOORS", {})
    tierf = floors.get(args.tier, floors.get("quick", {}))
    obs = {"evaluations": own_evals, "distinct": len(classes)}
    obs.update({"event:" + k: v for k, v in monitor_events.items()})
    obs.update({"anchor:" + k: v for k, v in anchors.items()})
    obs.update({"outcome:" + k: v for k, v in outcomes.items()})
    for k, floor in tierf.items():
        if obs.get(k, 0) < floor:
            inconclusive.append("monitor floor not reached: %s=%s < %s" % (k, obs.get(k, 0), floor))
    # Anchors: the entry points the workload calls (ANCHORS_REQUIRED) must have been reached; the internal helpers behind
    # them are counted as evidence only - a refactoring that stops calling a helper does not make the observation void.
    required = getattr(W, "ANCHORS_REQUIRED", None)
    if required is None:
        required = [a for a in getattr(W, "ANCHORS", []) if a not in getattr(W, "ANCHORS_OPTIONAL", [])]
    unreached = [a for a in getattr(W, "ANCHORS", []) if anchors.get(a, 0) == 0]
    # (names are evidence: a refactoring may rename or inline an entry point - benign change C04-c3 generates the operator methods
    # as lambdas.  What makes the observation void is the workload not entering the library at all.)
    lib_entered = max([r.get("lib_functions_entered", 0) for r in ok] or [0])
    if lib_entered < 10:
        inconclusive.append("the workload entered only %d functions of the library" % lib_entered)
    if getattr(W, "ANCHORS", []) and len(unreached) == len(W.ANCHORS):
        inconclusive.append("no anchored function reached at all")
    for a in unreached:
        lines.append("NOTE anchored %s not reached under that name (evidence only): %s" % ("entry point" if a in required else "helper", a))
    if inconclusive and exit_code == 0:
        exit_code = 2
        for r in inconclusive[:5]:
            lines.append("INCONCLUSIVE property=%s reason=%s" % (pid, r.replace("\n", " ")[:500]))
    elif inconclusive:
        for r in inconclusive[:5]:
            lines.append("NOTE incomplete observation: %s" % r.replace("\n", " ")[:500])

    if os.environ.get("VERIF_FUNCMAP"):
        fm = summed("all_function_calls")
        os.makedirs(os.path.join(VERIF, "mutants", "funcmap"), exist_ok=True)
        with open(os.path.join(VERIF, "mutants", "funcmap", "%s.json" % pid), "w") as f:
            json.dump(fm, f, indent=0, sort_keys=True)
    wall = round(time.time() - t0, 2)
    verdict = {0: "held on what was observed", 1: "VIOLATED", 2: "inconclusive"}[exit_code]
    lines.append("%s %s tier=%s seed=%d: %s - %d executions (%d own), %d distinct classes, %d shards, %.1fs" % (
        "RESULT", pid, args.tier, args.seed, verdict, evaluations, own_evals, len(classes), len(results), wall))

    # ---------------------------------------------------------------- evidence
    if not args.no_evidence:
        ev = {
            "property_id": pid, "tier": args.tier, "seed": args.seed,
            "level": getattr(W, "LEVEL", "exploration"),
            "coverage": {
                "evaluations": evaluations,
                "distinct_nontrivial": len(classes),
                "rule": W.RULE,
                "samples": samples,
                "exhaustive": bool(getattr(W, "EXHAUSTIVE_ALL", False)),
                "exhaustive_blocks": sorted(set(r["desc"].get("block") for r in own if r["desc"].get("exhaustive"))),
                "own_workload_evaluations": own_evals,
                "guest_workload_evaluations": {w: sum(r["evaluations"] for r in ok if r["workload"] == w)
                                               for w in sorted(set(r["workload"] for r in ok)) if w != pid},
                "class_examples": class_examples,
                "monitor_events": monitor_events,
                "anchor_calls": anchors,
                "anchors_required": list(required),
                "library_functions_entered": lib_entered,
                "anchor_helpers_not_reached": [a for a in unreached if a not in required],
                "constructor_sites": dict(sorted(sites.items(), key=lambda kv: -kv[1])[:60]),
                "outcomes": outcomes,
                "relaxed_cases": relaxed,
                "known_findings_hit": {k: h["n"] for k, h in known_hits.items()},
                "violations_by_key": {"%s/%s" % k: n for k, n in counts.items()},
                "shards": len(results), "shards_failed": len(failed), "harness_errors": len(harness),
                "verdict": verdict,
                "inconclusive_reasons": inconclusive,
                "repo": ok[0]["repo"] if ok else None,
            },
            "assumptions": list(getattr(W, "ASSUMPTIONS", [])) + [
                "verdict covers only the executions produced by this run (runtime monitoring)",
                "NumPy (prebuilt wheel) is trusted as the arithmetic / indexing reference",
            ],
            "wall_s": wall,
            "violations": n_own_total - sum(h["n"] for h in known_hits.values()) if exit_code == 1 else 0,
        }
        os.makedirs(os.path.join(VERIF, "evidence"), exist_ok=True)
        p = os.path.join(VERIF, "evidence", "%s.json" % pid)
        with open(p + ".tmp", "w") as f:
            json.dump(ev, f, indent=1)
        os.replace(p + ".tmp", p)
    print("\n".join(lines))
    return exit_code


def replay(pid, path):
    out = tempfile.mkdtemp(prefix="vp-replay-")
    try:
        o = os.path.join(out, "r.json")
        p = subprocess.run([PY, "-m", "vp.shard", "--replay", path, o], cwd=VERIF, env=child_env(),
                           timeout=900, stdout=subprocess.PIPE, stderr=subprocess.PIPE)
        if p.returncode != 0:
            print("INCONCLUSIVE property=%s reason=replay shard failed: %s" % (pid, p.stderr.decode(errors="replace")[-800:]))
            return 2
        with open(o) as f:
            r = json.load(f)
    finally:
        shutil.rmtree(out, ignore_errors=True)
    from . import findings
    kf = findings.load()
    code = 0
    for s in r["samples"][:1]:
        print("event log:", s.get("log"))
    for h in r.get("harness_errors", []):
        print("INCONCLUSIVE property=%s reason=harness error in replay: %s" % (pid, h["tb"][-600:]))
        code = 2
    for v in r["violations"]:
        if v["property"] != pid:
            print("NOTE cross-property observation property=%s: %s" % (v["property"], v["msg"][:300]))
            continue
        f = findings.classify(kf, v)
        if f is not None:
            print("KNOWN-FINDING: property=%s %s" % (pid, f["what"]))
        else:
            print("VIOLATION property=%s replay=%s" % (pid, path))
            print("  witness[%s]: %s" % (v["key"], v["msg"][:1500]))
            code = 1
    if code == 0:
        print("RESULT %s replay: no violation reproduced" % pid)
    return code


if __name__ == "__main__":
    sys.exit(main())
