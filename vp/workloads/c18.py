"""C18 - interp_axis is per-fibre linear interpolation, exact at the nodes."""
import numpy as np
from .. import gen, model, codec
from . import common

ID = "C18"
LEVEL = "exploration"
RULE = ("float/int arrays of 1-4 dims with numeric labels stored increasing / decreasing / shuffled (1-5 nodes), every axis position, new "
        "coordinate vectors (sorted or not; points below, on, between, above the nodes) as list / ndarray / Axis, left/right fills in "
        "{default NaN, left only, right only, both}, issorted in {None, True when true}; Dataset variant with variables lacking the axis; "
        "interp_like over templates. class = (variant, ndim, axis position, order, #nodes, where points fall, fills, data kind); trivial = none")
ANCHORS = ["transform.interp_axis", "transform._interp_internal_get_weights", "transform._interp_internal_from_weight",
           "transform.interp_like", "dataset.interp_axis"]
# entry points the workload calls itself; the other anchors are helpers behind them (counted as evidence only)
ANCHORS_REQUIRED = ["transform.interp_axis", "transform.interp_like", "dataset.interp_axis"]
FLOORS = {"quick": {"evaluations": 2500, "distinct": 800, "outcome:nodes-exact": 1500, "outcome:out-of-range": 1000},
          "thorough": {"evaluations": 50000, "distinct": 3000}}


def shards(tier, seed, scale=1.0):
    return common.rand_shards(ID, tier, seed, scale, 6000, 150000)


def cases(desc):
    rng = common.rng_for(ID, desc)
    for i in range(desc["n"]):
        yield gen_case(rng)


def new_points(rng, lab):
    lo, hi = min(lab), max(lab)
    pts = []
    for _ in range(rng.randint(1, 6)):
        r = rng.random()
        if r < 0.3:
            pts.append(float(rng.choice(lab)))
        elif r < 0.6:
            i = rng.randrange(len(lab))
            s = sorted(lab)
            j = min(i + 1, len(s) - 1)
            pts.append(float(s[i]) + (float(s[j]) - float(s[i])) * rng.choice([0.25, 0.5, 0.75, 0.1]))
        elif r < 0.8:
            pts.append(float(lo) - rng.choice([0.5, 1, 3]))
        else:
            pts.append(float(hi) + rng.choice([0.5, 1, 3]))
    if rng.random() < 0.5:
        pts.sort()
    return pts


def gen_case(rng):
    variant = rng.choice(['array', 'array', 'array', 'dataset', 'like'])
    nd = rng.randint(1, 4)
    dims = rng.sample(gen.DIMS, nd)
    k = rng.randrange(nd)
    kinds = [rng.choice('ifs') if i != k else rng.choice('if') for i in range(nd)]
    sizes = [rng.randint(1, 4) if i != k else rng.choice([1, 2, 3, 4, 5]) for i in range(nd)]
    sp = gen.spec(rng, dims=dims, sizes=sizes, kinds=kinds, dtype=rng.choice('ffi'))
    lab = sp["labels"][k]
    nanp = 'none'
    if sp["values"].dtype.kind == 'f' and rng.random() < 0.3:
        # missing values in the data: nodes next to a NaN must still be reproduced exactly
        v = sp["values"]
        v[np.array([rng.random() < 0.25 for _ in range(v.size)]).reshape(v.shape)] = np.nan
        nanp = 'some'
    c = {"variant": variant, "nan": nanp, "a": sp, "k": k, "new": new_points(rng, lab), "by_pos": rng.random() < 0.5,
         "form": rng.choice(['list', 'array', 'Axis', 'Axis-othername']), "fills": rng.choice([None, None, 'left', 'right', 'both']),
         "zero_fills": rng.random() < 0.3, "neg_pos": rng.random() < 0.3}
    c["issorted"] = True if (model.strict_dir(lab) in ('inc', 'any') and rng.random() < 0.3) else None
    if variant == 'dataset':
        # a second variable lacking the axis and one having it in another position
        others = [d for d in dims if d != dims[k]]
        c["extra_vars"] = {"u": {"dims": others[:1], "labels": [sp["labels"][dims.index(d)] for d in others[:1]], "kinds": [sp["kinds"][dims.index(d)] for d in others[:1]]},
                           "w": {"dims": [dims[k]], "labels": [lab], "kinds": [sp["kinds"][k]]},
                           "s": {"dims": [], "labels": [], "kinds": []}}
        for e in c["extra_vars"].values():
            e["values"] = gen.values(rng, tuple(len(l) for l in e["labels"]), 'f')
    if variant == 'like':
        t = {"dims": [], "labels": [], "kinds": []}
        for i, d in enumerate(dims):
            if sp["kinds"][i] in 'if' and (i == k or rng.random() < 0.5):
                t["dims"].append(d)
                t["labels"].append(new_points(rng, sp["labels"][i]))
                t["kinds"].append('f')
        if rng.random() < 0.4:
            t["dims"].append('q9')
            t["labels"].append([1.0, 2.0])
            t["kinds"].append('f')
        c["template"] = t
    return c


def np_interp_axis(m, k, new, left, right):
    lab = np.array(m.labels[k], dtype=float)
    order = np.argsort(lab, kind='stable')
    xs = lab[order]
    newa = np.array(new, dtype=float)
    def fib(f):
        return np.interp(newa, xs, np.asarray(f, dtype=float)[order], left=left, right=right)
    ev = np.apply_along_axis(fib, k, m.values.astype(float))
    labs = [list(l) for l in m.labels]
    labs[k] = list(new)
    return model.MA(ev, m.dims, labs)


def check(case, ctx):
    da = __import__("vp.boot", fromlist=["boot"]).boot()
    sp = case["a"]
    m = model.from_spec(sp)
    a = common.build_under_option(sp, ctx.outcomes)
    k = case["k"]
    d = m.dims[k]
    new = case["new"]
    lab = m.labels[k]
    fills = case["fills"]
    kw = {}
    left = right = float('nan')
    if fills in ('left', 'both'):
        kw["left"] = left = (0 if case.get("zero_fills") else -77.5)          # a fill value of zero is a fill value
    if fills in ('right', 'both'):
        kw["right"] = right = (0.0 if case.get("zero_fills") else 88.5)
    lo, hi = min(lab), max(lab)
    if any(x < lo or x > hi for x in new):
        ctx.outcomes['out-of-range'] += 1
    if any(x in lab for x in new):
        ctx.outcomes['nodes-exact'] += 1
    where = tuple(sorted(set('below' if x < lo else 'above' if x > hi else 'on' if x in lab else 'between' for x in new)))
    klass = (case["variant"], m.ndim, k, model.strict_dir(lab) or 'shuf', len(lab), where, fills, m.values.dtype.kind, case["issorted"], case.get("nan"))
    tol = dict(rtol=1e-12, atol=1e-9)
    if case["variant"] == 'like':
        tsp = case["template"]
        tsp = dict(tsp)
        tsp["values"] = np.zeros(tuple(len(l) for l in tsp["labels"]))
        t = gen.build(tsp, meta=False)
        label = "a.interp_like(template dims=%r labels=%s%s) a: dims=%r labels=%s" % (tuple(tsp["dims"]), codec.short(tsp["labels"], 100), kw or "", m.dims, codec.short(m.labels, 100))
        res, exc = ctx.call(label, lambda: a.interp_like(t, **kw), operands=(a, t), meta='carry', meta_owner=ID, ambient=True)
        exp = m
        for dd in m.dims:
            if dd in tsp["dims"]:
                exp = np_interp_axis(exp, exp.dims.index(dd), tsp["labels"][tsp["dims"].index(dd)], left, right)
        common.expect(ctx, ID, "like", label, res, exc, exp=exp, **tol)
        return klass
    arr = np.array(new, dtype=float)
    # (an Axis object is a vector of coordinates like any other: the axis to interpolate along is the one asked for)
    arg = list(new) if case["form"] == 'list' else arr if case["form"] == 'array' else da.Axis(arr, d if case["form"] == 'Axis' else ('x0' if d != 'x0' else 'other'))
    axis = (k - m.ndim if case.get("neg_pos") else k) if case["by_pos"] else d
    if case["issorted"]:
        kw["issorted"] = True
    exp = np_interp_axis(m, k, new, left, right)
    if case["variant"] == 'array':
        label = "a.interp_axis(%s as %s, axis=%r%s) on %s%s labels[%r]=%s" % (codec.short(new, 80), case["form"], axis, kw or "", m.values.dtype, m.shape, d, codec.short(lab, 60))
        res, exc = ctx.call(label, lambda: a.interp_axis(arg, axis=axis, **kw), operands=(a,), meta='carry', meta_owner=ID, ambient=True)
        if common.expect(ctx, ID, "interp", label, res, exc, exp=exp, **tol):
            # exact at the nodes
            g = model.observe(res)
            for i, x in enumerate(new):
                if x in lab:
                    src = np.take(m.values, lab.index(x), axis=k).astype(float)
                    got = np.take(g.values, i, axis=k)
                    if not model.values_eq(got, src):
                        ctx.v(ID, "node-not-exact", "%s: at existing label %r the result %s differs from the original %s" % (label, x, model.brief(got), model.brief(src)))
                        break
        return klass
    # Dataset variant: per variable, variables lacking the axis unchanged
    ds = da.Dataset()
    ds['v'] = a
    specs = {"v": sp}
    for name, e in case["extra_vars"].items():
        ds[name] = gen.build(e)
        specs[name] = e
    dsaxis = list(ds.dims).index(d) if case["by_pos"] else d
    label = "ds.interp_axis(%s, axis=%r%s) labels[%r]=%s vars=%s" % (codec.short(new, 80), dsaxis, kw or "", d, codec.short(lab, 60), {n: tuple(s["dims"]) for n, s in specs.items()})
    res, exc = ctx.call(label, lambda: ds.interp_axis(arg if not case["form"].startswith('Axis') else arr, axis=dsaxis, **kw), operands=(ds,), ambient=True)
    if exc is not None:
        ctx.v(ID, "dataset-raised:" + type(exc).__name__, "%s raised %s: %s" % (label, type(exc).__name__, str(exc)[:200]))
        return klass
    if not common.is_ds(res):
        ctx.v(ID, "dataset-type", "%s returned %s" % (label, type(res).__name__))
        return klass
    # Dataset.interp_like with a template carrying the new axis
    tmpl = da.DimArray(np.zeros(len(new)), axes=[da.Axis(arr, d)])
    res2, exc2 = ctx.call("ds.interp_like(template on %r)" % d, lambda: ds.interp_like(tmpl, **{k_: v_ for k_, v_ in kw.items() if k_ != 'issorted'}), operands=(ds, tmpl), ambient=True)
    if exc2 is not None:
        ctx.v(ID, "dataset-interp_like-raised:" + type(exc2).__name__, "ds.interp_like(template) for %s raised %s: %s" % (label, type(exc2).__name__, str(exc2)[:150]))
    elif common.is_ds(res2):
        for name, s in specs.items():
            mm = model.from_spec(s)
            e = np_interp_axis(mm, mm.dims.index(d), new, left, right) if d in mm.dims else mm
            if name in res2.keys():
                msg = model.compare(common.as_ma(dict.__getitem__(res2, name)), e, "ds.interp_like(template) for %s: variable %r" % (label, name), **tol)
                if msg:
                    ctx.v(ID, "dataset-interp_like-variable", msg)
    for name, s in specs.items():
        mm = model.from_spec(s)
        e = np_interp_axis(mm, mm.dims.index(d), new, left, right) if d in mm.dims else mm
        if name not in res.keys():
            ctx.v(ID, "dataset-keys", "%s: variable %r missing" % (label, name))
            continue
        msg = model.compare(common.as_ma(dict.__getitem__(res, name)), e, "%s: variable %r" % (label, name), **tol)
        if msg:
            ctx.v(ID, "dataset-variable", msg)
    return klass
