"""C19 - serialisation round-trips: JSON and netCDF (netCDF against the stand-in netCDF4)."""
import os
import itertools
import numpy as np
from .. import gen, model, codec, monitors
from . import common, nccommon as ncc

ID = "C19"
LEVEL = "exploration"
RULE = ("block 'json': arrays of 0-3 dims, int/float data with NaN, int/float/str labels in any order, JSON-representable attrs plus a "
        "non-representable one; block 'nc': Datasets of 0-4 variables (0-d..3-d; float with NaN, int64, int32, str) over shared/unshared "
        "dims with int/float/str labels in any order, attrs (str/int/float/list) at dataset, variable and axis level, written by a sequence "
        "of 1-6 steps mixing Dataset.write_nc, DimArray.write_nc(mode w / a / a+), open_nc(mode=a)[name]=array and rewrites, in NETCDF4 and "
        "NETCDF3_CLASSIC, then read whole, per variable and as shuffled name subsets; block 'standin': the stand-in's own indexing vs plain "
        "loops; JSON metadata includes tuples (expected back as their JSON image). class = (block, format, step kinds, variable kinds, ndims) ; trivial = empty dataset")
ANCHORS = ["dimarraycls.to_jsondict", "dimarraycls.from_jsondict", "nc.write", "nc.read", "nc.maybe_encode_values", "nc._maybe_open_file",
           "dataset.write_nc", "dimarraycls.write_nc"]
# entry points the workload calls itself; the other anchors are helpers behind them (counted as evidence only)
ANCHORS_REQUIRED = ["dimarraycls.to_jsondict", "dimarraycls.from_jsondict", "dataset.write_nc", "dimarraycls.write_nc"]
FLOORS = {"quick": {"evaluations": 700, "distinct": 300, "outcome:json-roundtrips": 250, "outcome:nc-files": 250, "outcome:nc-reads": 1000,
                    "outcome:nc-append-steps": 200},
          "thorough": {"evaluations": 15000, "distinct": 1500}}
ASSUMPTIONS = ["netCDF behaviour is that of the vendored stand-in (vp/standins/netCDF4, models netCDF4-python 1.2.x); the real C library "
               "(file-format limits, HDF5 chunking, persistence across machines) is out of reach",
               "a violation is reported only if it reproduces under all 8 stand-in quirk combinations"]


def shards(tier, seed, scale=1.0):
    out = common.rand_shards(ID, tier, seed, scale, 480, 10000, nshards=4)
    for d in out:
        d["block"] = "json"
        d["name"] = "json-" + d["name"]
    out2 = common.rand_shards(ID, tier, seed, scale, 480, 12000, nshards=11)
    for d in out2:
        d["block"] = "nc"
        d["name"] = "nc-" + d["name"]
    out3 = common.rand_shards(ID, tier, seed, scale, 150, 3000, nshards=1)
    for d in out3:
        d["block"] = "standin"
        d["name"] = "standin-" + d["name"]
        d["guest_ok"] = False
    return out + out2 + out3


def cases(desc):
    rng = common.rng_for(ID, desc)
    for i in range(desc["n"]):
        if desc["block"] == "json":
            sp = gen.spec(rng, mindim=0, maxdim=3, dtype=rng.choice('fi'), nan=rng.choice([0, 0.3]))
            pool = [("units", "K"), ("n", 3), ("xv", 2.5), ("l", [1, 2, 3]), ("d", {"k": [1, "a"]}), ("none", None), ("b", True), ("valid_range", (0, 10)), ("empty_tuple", ()), ("nested", [(1, 2), {"t": (3,)}]),
                    # metadata stored under names the attribute protocol does not reach (class members, underscore, a dimension name)
                    ("shape", "round"), ("_hidden", 4), ("values", "v"), ("ndim", [7])] + ([(sp["dims"][0], "named like a dimension")] if sp["dims"] else [])
            attrs = {k: v for k, v in rng.sample(pool, rng.randint(0, 5))}
            yield {"block": "json", "a": sp, "attrs": attrs, "bad_attr": rng.random() < 0.4}
        elif desc["block"] == "nc":
            yield gen_nc_case(rng)
        else:
            yield {"block": "standin", "seed": rng.randrange(10 ** 9)}


NAMES = list('abcdefghijklmnopq')


def gen_nc_case(rng):
    fmt = rng.choice(['NETCDF4', 'NETCDF4', 'NETCDF3_CLASSIC'])
    dims = rng.sample(gen.DIMS, rng.randint(1, 3))
    axes = ncc.gen_axes(rng, dims, fmt)
    steps = []
    first = rng.choice(['ds', 'ds', 'da', 'open'])
    known = {d: axes[d] for d in dims}
    ctr = [0]

    def new_array(extra_ok=True):
        vd = rng.sample(list(known), rng.randint(0, min(3, len(known))))
        if extra_ok and rng.random() < 0.3:
            ctr[0] += 1
            nd_ = "n%d" % ctr[0]
            known[nd_] = ncc.gen_axes(rng, [nd_], fmt)[nd_]
            vd.insert(rng.randint(0, len(vd)), nd_)
        return ncc.gen_var(rng, known, vd, fmt)
    names = []
    if first == 'ds':
        dsp = ncc.gen_dataset(rng, fmt, dims=dims, axes=axes)
        steps.append({"op": "ds.write_nc", "ds": dsp})
        names += list(dsp["vars"])
    nsteps = rng.randint(0 if first == 'ds' else 1, 5)
    for s in range(nsteps):
        op = rng.choice(['da.write_nc:a', 'da.write_nc:a+', 'open_nc:a', 'rewrite', 'da.write_nc:a'])
        if not steps:
            op = rng.choice(['da.write_nc:w', 'da.write_nc:a+', 'open_nc:w'])
        elif rng.random() < 0.05:
            op = 'da.write_nc:w'
        if op == 'rewrite':
            if not names:
                continue
            steps.append({"op": "rewrite", "name": rng.choice(names), "seed": rng.randrange(10 ** 6), "via": rng.choice(['da.write_nc', 'open_nc'])})
            continue
        if steps and rng.random() < 0.15:
            # a whole Dataset appended to the existing file: new variables over the dimensions the file already has
            free = [n for n in NAMES if n not in names]
            dsp = ncc.gen_dataset(rng, fmt, dims=list(known), axes={d: known[d] for d in known}, names=rng.sample(free, rng.randint(1, 2)))
            steps.append({"op": "ds.write_nc:a", "ds": dsp})
            names += list(dsp["vars"])
            continue
        if op == 'da.write_nc:w':
            names = []
            known.clear()
            known.update({d: axes[d] for d in dims})
        name = rng.choice([n for n in NAMES if n not in names])
        steps.append({"op": op, "name": name, "array": new_array(), "axes": {d: known[d] for d in known}})
        names.append(name)
    return {"block": "nc", "fmt": fmt, "steps": steps, "read_seed": rng.randrange(10 ** 6)}


# ---------------------------------------------------------------------------------------
def json_case(case, ctx):
    da = __import__("vp.boot", fromlist=["boot"]).boot()
    sp = case["a"]
    m = model.from_spec(sp)
    a = gen.build(sp, meta=False)
    a.attrs.update(case["attrs"])
    if case["bad_attr"]:
        a.attrs['arr'] = np.arange(3)            # not JSON-representable: must be dropped without failing
    label = "from_json(to_json(a)) dims=%r labels=%s %s%s attrs=%s" % (m.dims, codec.short(m.labels, 100), m.values.dtype, m.shape, codec.short(case["attrs"], 80))
    s, exc = ctx.call("a.to_json() " + label, lambda: a.to_json(), operands=(a,))
    ctx.outcomes['json-roundtrips'] += 1
    if exc is not None or not isinstance(s, str):
        ctx.v(ID, "json:to_json-raised", "%s: to_json raised %s: %s" % (label, type(exc).__name__, str(exc)[:150]))
        return ('json', 'raised')
    r, exc = ctx.call(label, lambda: da.DimArray.from_json(s), operands=())
    if common.expect(ctx, ID, "json", label, r, exc, exp=m, must_be_da=True):
        if r.values.dtype.kind != m.values.dtype.kind and m.values.size:
            ctx.v(ID, "json:dtype", "%s: dtype %s, was %s" % (label, r.values.dtype, m.values.dtype))
        for d, k, ax in zip(m.dims, sp["kinds"], r.axes):
            want = {'i': 'int', 'f': 'float', 's': 'str'}[k]
            if ax.values.size and model.KIND_CLASS.get(ax.values.dtype.kind) != want:
                ctx.v(ID, "json:label-kind", "%s: labels of %r came back as %s, were %s" % (label, d, ax.values.dtype, want))
        import json as _json
        want_attrs = _json.loads(_json.dumps(case["attrs"]))       # the JSON image of the metadata (tuples come back as lists)
        if monitors.freeze(dict(r.attrs)) != monitors.freeze(want_attrs):
            ctx.v(ID, "json:attrs", "%s: attrs %r, expected the JSON-representable entries %r" % (label, r.attrs, case["attrs"]))
    d2, exc = ctx.call("from_jsondict(to_jsondict(a))", lambda: da.DimArray.from_jsondict(a.to_jsondict()), operands=(a,))
    common.expect(ctx, ID, "jsondict", "from_jsondict(to_jsondict(a)) " + label, d2, exc, exp=m, must_be_da=True)
    # the dictionary form can be restored more than once: it is left as it was
    import copy as _copy
    jd = a.to_jsondict()
    jd0 = _copy.deepcopy(jd)
    for rep in (1, 2):
        d3, exc = ctx.call("from_jsondict(d) #%d" % rep, lambda: da.DimArray.from_jsondict(jd), operands=(a,))
        if not common.expect(ctx, ID, "jsondict-reuse", "from_jsondict(d), use %d of the same dictionary, %s" % (rep, label), d3, exc, exp=m, must_be_da=True):
            break
    if monitors.freeze(jd) != monitors.freeze(jd0):
        ctx.v(ID, "jsondict-argument-modified", "from_jsondict(d) changed the dictionary it was given: keys now %r, were %r (%s)" % (sorted(jd), sorted(jd0), label))
    return ('json', m.ndim, tuple(sp["kinds"]), m.values.dtype.kind, bool(np.isnan(m.values.astype(float)).any()) if m.values.size else False,
            tuple(sorted(case["attrs"])), case["bad_attr"])


def nc_body(case, ctx, tmp):
    import random
    da = __import__("vp.boot", fromlist=["boot"]).boot()
    fmt = case["fmt"]
    fn = os.path.join(tmp, "f.nc")
    fm = None
    kinds = []
    ctx.outcomes['nc-files'] += 1
    for si, st in enumerate(case["steps"]):
        op = st["op"]
        kinds.append(op)
        where = "step %d %s (format %s, history %s)" % (si, op, fmt, [s["op"] for s in case["steps"][:si]])
        if op == 'ds.write_nc':
            ds = ncc.build_dataset(st["ds"])
            _, exc = ctx.call("Dataset.write_nc " + where, lambda: ds.write_nc(fn, format=fmt), operands=(ds,))
            fm = ncc.FileModel(fmt)
            fm.write_dataset(st["ds"])
        elif op == 'ds.write_nc:a':
            ds = ncc.build_dataset(st["ds"])
            ctx.outcomes['nc-append-steps'] += 1
            ctx.outcomes['nc-dataset-append-steps'] += 1
            _, exc = ctx.call("Dataset.write_nc(f, mode='a') " + where, lambda: ds.write_nc(fn, mode='a'), operands=(ds,))
            fm.write_dataset(st["ds"])
        elif op == 'rewrite':
            if fm is None or st["name"] not in fm.vars:
                continue
            rr = random.Random(st["seed"])
            old, attrs, kc = fm.vars[st["name"]]
            if old.values.dtype.kind == 'O':
                continue
            newv = (old.values * 0 + np.array(rr.sample(range(40000, 60000), max(1, old.values.size)))[:old.values.size].reshape(old.values.shape)).astype(old.values.dtype)
            nattrs = dict(attrs)
            if rr.random() < 0.6:
                # the rewritten variable comes with other metadata: changed entries are replaced, new ones added
                for kk in list(nattrs)[:1]:
                    if isinstance(nattrs[kk], str):
                        nattrs[kk] = nattrs[kk] + '-v2'
                nattrs['rewritten'] = 'r%d' % st["seed"]
                ctx.outcomes['nc-rewrites-with-new-metadata'] += 1
            sp = {"dims": list(old.dims), "labels": old.labels, "kinds": [fm.axes[d][1] for d in old.dims], "values": newv, "attrs": nattrs}
            arr = ncc.build_array(sp, fm.axes)
            ctx.outcomes['nc-append-steps'] += 1
            if st["via"] == 'open_nc':
                def fn_():
                    f = da.open_nc(fn, mode='a')
                    try:
                        f[st["name"]] = arr
                    finally:
                        f.close()
                _, exc = ctx.call("open_nc(a)[%r] = array (rewrite) %s" % (st["name"], where), fn_, operands=(arr,))
            else:
                _, exc = ctx.call("array.write_nc(f, %r, mode='a') (rewrite) %s" % (st["name"], where), lambda: arr.write_nc(fn, st["name"], mode='a'), operands=(arr,))
            fm.add_var(st["name"], sp, fm.axes)
        else:
            sp = st["array"]
            mode = op.split(':')[1]
            axes_ = st["axes"]
            if fm is not None and mode != 'w' and (len(st["name"]) + len(sp["dims"]) + case["read_seed"]) % 3 == 0 and any(d in fm.axes for d in sp["dims"]):
                # the appended array's axes carry other metadata than the axes already in the file: what is there is kept
                axes_ = dict(axes_)
                for d in sp["dims"]:
                    if d in fm.axes:
                        at_ = dict(axes_[d][2])
                        for kk in list(at_)[:1]:
                            if isinstance(at_[kk], str):
                                at_[kk] = at_[kk] + '-other'
                        at_['appended_note'] = 'only on the appended array'
                        axes_[d] = (axes_[d][0], axes_[d][1], at_)
                ctx.outcomes['nc-appends-with-other-axis-metadata'] += 1
            arr = ncc.build_array(sp, axes_)
            ctx.outcomes['nc-append-steps'] += 1
            if op.startswith('da.write_nc'):
                kw = {"format": fmt} if mode in ('w', 'a+') else {}
                _, exc = ctx.call("array.write_nc(f, %r, mode=%r) %s" % (st["name"], mode, where), lambda: arr.write_nc(fn, st["name"], mode=mode, **kw), operands=(arr,))
            else:
                def fn_():
                    f = da.open_nc(fn, mode=mode, format=fmt) if mode == 'w' else da.open_nc(fn, mode=mode)
                    try:
                        f[st["name"]] = arr
                    finally:
                        f.close()
                _, exc = ctx.call("open_nc(mode=%r)[%r] = array %s" % (mode, st["name"], where), fn_, operands=(arr,))
            if mode == 'w' or fm is None:
                fm = ncc.FileModel(fmt)
            fm.add_var(st["name"], sp, st["axes"])
        if exc is not None:
            ctx.v(ID, "nc:write-raised:%s:%s" % (op.split(':')[0], type(exc).__name__), "%s raised %s: %s" % (where, type(exc).__name__, str(exc)[:250]))
            return ('nc', 'write-raised')
        # after every step the file must hold exactly everything written so far
        r, exc = ctx.call("read_nc(f) after " + where, lambda: da.read_nc(fn), operands=())
        ctx.outcomes['nc-reads'] += 1
        if exc is not None:
            ctx.v(ID, "nc:read-raised:" + type(exc).__name__, "read_nc after %s raised %s: %s" % (where, type(exc).__name__, str(exc)[:250]))
            return ('nc', 'read-raised')
        if not ncc.compare_dataset(ctx, ID, "nc:whole", "read_nc after " + where, r, fm):
            return ('nc', 'mismatch')
    if fm is None:
        return None
    # ---- other read forms: single variable, shuffled name subsets
    rr = random.Random(case["read_seed"])
    names = list(fm.vars)
    for n in names[:3]:
        r, exc = ctx.call("read_nc(f, %r)" % n, lambda n=n: da.read_nc(fn, n), operands=())
        ctx.outcomes['nc-reads'] += 1
        if exc is not None:
            ctx.v(ID, "nc:read-var-raised", "read_nc(f, %r) raised %s: %s" % (n, type(exc).__name__, str(exc)[:200]))
        else:
            ncc.compare_var(ctx, ID, "nc:single", "read_nc(f, %r) format %s" % (n, fmt), r, fm, n)
    if len(names) >= 2:
        sub = rr.sample(names, rr.randint(1, len(names)))
        r, exc = ctx.call("read_nc(f, %r)" % sub, lambda: da.read_nc(fn, list(sub)), operands=())
        ctx.outcomes['nc-reads'] += 1
        if exc is not None:
            ctx.v(ID, "nc:read-subset-raised", "read_nc(f, %r) raised %s: %s" % (sub, type(exc).__name__, str(exc)[:200]))
        else:
            fm2 = ncc.FileModel(fmt)
            fm2.dims, fm2.axes, fm2.attrs = fm.dims, fm.axes, fm.attrs
            fm2.vars = {n: fm.vars[n] for n in sub}
            ncc.compare_dataset(ctx, ID, "nc:subset", "read_nc(f, %r) format %s" % (sub, fmt), r, fm2, names=sub)
    with da.open_nc(fn) as f:
        got_keys = list(f.keys())
        if sorted(got_keys) != sorted(names):
            ctx.v(ID, "nc:open-keys", "open_nc(f).keys() = %r, expected %r" % (got_keys, names))
        if set(f.dims) != set(fm.dims):
            ctx.v(ID, "nc:file-dims", "open_nc(f).dims = %r, expected the dimensions %r" % (tuple(f.dims), tuple(fm.dims)))
    vk = tuple(sorted(set(v[2] for v in fm.vars.values())))
    return ('nc', fmt, tuple(kinds), vk, tuple(sorted(set(v[0].ndim for v in fm.vars.values()))))


def standin_case(case, ctx):
    """self-test of the stand-in: orthogonal get/set against plain loops"""
    import random
    import netCDF4
    rng = random.Random(case["seed"])
    with ncc.Tmp() as tmp:
        fn = os.path.join(tmp, "s.nc")
        ds = netCDF4.Dataset(fn, 'w')
        shape = [rng.randint(1, 4) for _ in range(rng.randint(1, 3))]
        for i, n in enumerate(shape):
            ds.createDimension("d%d" % i, n)
        v = ds.createVariable("v", 'f8', tuple("d%d" % i for i in range(len(shape))))
        ref = np.arange(int(np.prod(shape)), dtype=float).reshape(shape) + 1
        v[...] = ref
        for trial in range(8):
            key, pos = [], []
            for n in shape:
                k = rng.choice(['int', 'slice', 'list', 'mask', 'full'])
                if k == 'int':
                    p = rng.randrange(-n, n)
                    key.append(p)
                    pos.append(p % n)
                elif k == 'slice':
                    a_, b_, c_ = rng.choice([None, 0, 1]), rng.choice([None, n, n - 1]), rng.choice([None, 1, 2, -1])
                    key.append(slice(a_, b_, c_))
                    pos.append(list(range(n))[slice(a_, b_, c_)])
                elif k == 'list':
                    p = sorted(rng.sample(range(n), rng.randint(1, n)))
                    key.append(p)
                    pos.append(p)
                elif k == 'mask':
                    mk = [rng.random() < 0.5 for _ in range(n)]
                    key.append(np.array(mk))
                    pos.append([i for i, b in enumerate(mk) if b])
                else:
                    key.append(slice(None))
                    pos.append(list(range(n)))
            got = np.asarray(v[tuple(key)])
            exp_shape = [len(p) for p in pos if isinstance(p, list)]
            exp = np.empty(exp_shape)
            for out_idx in itertools.product(*[range(len(p)) for p in pos if isinstance(p, list)]):
                it = iter(out_idx)
                src = tuple(p[next(it)] if isinstance(p, list) else p for p in pos)
                exp[out_idx] = ref[src]
            if got.shape != tuple(exp_shape) or not np.array_equal(got, exp):
                ctx.v(ID, "standin:getitem", "stand-in Variable[%s] on shape %r returned %s, loops give %s" % (codec.short(key, 100), shape, model.brief(got), model.brief(exp)))
            # set the same cells and check only those changed
            newref = ref.copy()
            for out_idx in itertools.product(*[range(len(p)) for p in pos if isinstance(p, list)]):
                it = iter(out_idx)
                src = tuple(p[next(it)] if isinstance(p, list) else p for p in pos)
                newref[src] = -5.0
            v[tuple(key)] = -5.0
            if not np.array_equal(np.asarray(v[...]), newref):
                ctx.v(ID, "standin:setitem", "stand-in Variable[%s] = -5 on shape %r changed other cells" % (codec.short(key, 100), shape))
            v[...] = ref
        ds.close()
        ds2 = netCDF4.Dataset(fn, 'r')
        if not np.array_equal(np.asarray(ds2.variables['v'][...]), ref):
            ctx.v(ID, "standin:persist", "stand-in lost data across close/reopen")
        ds2.close()
    return ('standin', len(shape))


def check(case, ctx):
    if case["block"] == "json":
        return json_case(case, ctx)
    if case["block"] == "standin":
        return standin_case(case, ctx)
    return ncc.run_under_quirks(ID, case, ctx, nc_body)
