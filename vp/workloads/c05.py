"""C05 - every produced array is well-formed and history-independent.

Three monitors: (1) M-WF - the DimArray.__init__ hook and the post-check on every returned object
(always on; guest shards run every other workload with it deciding); (2) constructor forms must
build equal arrays, ill-formed inputs must be rejected; (3) history vs fresh twin - after every
step of a random program every live array is rebuilt from its observable state and a probe
battery must answer identically on both."""
import numpy as np
from .. import gen, model, codec, monitors
from . import common

ID = "C05"
LEVEL = "exploration"
RULE = ("block 'ctor': a random (values, dims, labels) built through every documented constructor form (24 spellings) + rejection cases; "
        "block 'twin': random programs of 1-12 public operations (indexing, assignment, arithmetic, reductions, reshape family, reindex, "
        "align, stack/concatenate, in-place rename/relabel via set_axis / a.<dim>= / labels= / axes[d][i]=, Dataset insert/extract, cache-"
        "populating queries) on a pool of live arrays, each compared after every step with a freshly built twin through a probe battery; "
        "rejection cases include the axes setter given plain lists of the wrong size and zeros/ones/empty/nans given axes and a disagreeing shape; guest shards: all other workloads with the well-formedness hook deciding. class = (block, form) or (set of step kinds, length)")
ANCHORS = ["dimarraycls.__init__", "axes.append", "axes._init_axes", "axes._check_axis_values", "axes.is_monotonic"]
# entry points the workload calls itself; the other anchors are helpers behind them (counted as evidence only)
ANCHORS_REQUIRED = ["dimarraycls.__init__"]
FLOORS = {"quick": {"evaluations": 600, "distinct": 200, "event:wf_init_hook": 100000, "outcome:twin-comparisons": 10000, "outcome:ctor-forms": 3000},
          "thorough": {"evaluations": 10000, "distinct": 1000}}
GUESTS = [("c01", 0.1), ("c02", 0.03), ("c03", 0.1), ("c04", 0.15), ("c06", 0.15), ("c07", 0.1), ("c08", 0.1), ("c09", 0.1), ("c10", 0.15),
          ("c11", 0.15), ("c12", 0.15), ("c13", 0.15), ("c14", 0.15), ("c16", 0.05), ("c17", 0.1), ("c18", 0.1)]
STEPS = ['getlist', 'slice', 'put', 'add', 'mean', 'transpose', 'squeeze', 'newaxis', 'flatten', 'unflatten', 'reshape', 'reindex', 'align',
         'stack', 'concat', 'relabel', 'relabel_attr', 'labels_setter', 'rename', 'sort', 'querymono', 'querylabels', 'cumsum', 'setaxis',
         'dataset', 'dataset_rename', 'fullslice', 'take_axis', 'setaxis_dict', 'permute_labels', 'permute_labels', 'swapnames', 'rename_reuse',
         'interp', 'getlist_name', 'getlist', 'relabel_widen', 'relabel_widen', 'setaxis_from_other']


def shards(tier, seed, scale=1.0):
    out = common.rand_shards(ID, tier, seed, scale, 480, 8000, nshards=4)
    for d in out:
        d["block"] = "ctor"
        d["name"] = "ctor-" + d["name"]
    out2 = common.rand_shards(ID, tier, seed, scale, 720, 30000, nshards=12)
    for d in out2:
        d["block"] = "twin"
        d["name"] = "twin-" + d["name"]
    return out + out2


def cases(desc):
    rng = common.rng_for(ID, desc)
    for i in range(desc["n"]):
        if desc["block"] == "ctor":
            yield {"block": "ctor", "a": gen.spec(rng, mindim=1, maxdim=3, minsize=1, maxsize=3, dtype=rng.choice('fi'), distinct_sizes=rng.random() < 0.5)}
        else:
            kinds = {d: rng.choice('iffs') for d in gen.DIMS}
            pool = []
            for _ in range(2):
                dims = rng.sample(gen.DIMS, rng.randint(1, 3))
                pool.append(gen.spec(rng, dims=dims, kinds=[kinds[d] for d in dims], minsize=1, maxsize=3))
            if rng.random() < 0.1:
                # integer labels beyond 2**53: distinct as integers, several of them equal once cast to float (what a cached answer about
                # the integer labels says need not hold for the cast ones)
                for sp in pool:
                    for j, k_ in enumerate(sp["kinds"]):
                        if k_ == 'i':
                            sp["labels"][j] = [2 ** 57 + v for v in sp["labels"][j]]
                            sp["ldtypes"][j] = None
            yield {"block": "twin", "pool": pool, "seed": rng.randrange(10 ** 9), "nsteps": rng.randint(1, 12)}


# ---------------------------------------------------------------------------------------
# constructor forms
# ---------------------------------------------------------------------------------------
def ctor(case, ctx):
    da = __import__("vp.boot", fromlist=["boot"]).boot()
    sp = case["a"]
    m = model.from_spec(sp)
    v = m.values
    D = list(m.dims)
    L = [list(l) for l in m.labels]
    LA = [gen.np_labels(l, k) for l, k in zip(L, sp["kinds"])]
    nd = m.ndim
    Axis = da.Axis
    forms = {
        "axes=lists,dims": lambda: da.DimArray(v, axes=L, dims=D),
        "axes=ndarrays,dims": lambda: da.DimArray(v, axes=LA, dims=D),
        "labels=,dims": lambda: da.DimArray(v, labels=L, dims=D),
        "pairs": lambda: da.DimArray(v, axes=[(d, l) for d, l in zip(D, L)]),
        "pairs-tuple": lambda: da.DimArray(v, axes=tuple((d, l) for d, l in zip(D, LA))),
        "Axis objects": lambda: da.DimArray(v, axes=[Axis(l, d) for d, l in zip(D, LA)]),
        "Axes object": lambda: da.DimArray(v, axes=da.Axes([Axis(l, d) for d, l in zip(D, L)])),
        "dict+dims": lambda: da.DimArray(v, axes=dict(zip(D, L)), dims=D),
        "dict-reversed+dims": lambda: da.DimArray(v, axes=dict(reversed(list(zip(D, LA)))), dims=D),
        "values nested list": lambda: da.DimArray(v.tolist(), axes=L, dims=D),
        "values nested list + pairs": lambda: da.DimArray(v.tolist(), axes=[(d, l) for d, l in zip(D, L)]),
        "positional axes": lambda: da.DimArray(v, [(d, l) for d, l in zip(D, L)]),
        "from DimArray": lambda: da.DimArray(da.DimArray(v, axes=L, dims=D)),
        "array()": lambda: da.array(v, axes=L, dims=D),
        "copy=True": lambda: da.DimArray(v, axes=L, dims=D, copy=True),
        "dtype=": lambda: da.DimArray(v.tolist(), axes=L, dims=D, dtype=v.dtype),
        "from_jsondict": lambda: da.DimArray.from_jsondict({"values": v.tolist(), "dims": D, "labels": L}),
    }
    if nd == 1:
        forms["1-D tuple"] = lambda: da.DimArray(v, (D[0], L[0]))
        forms["1-D axes=labels,dims=str"] = lambda: da.DimArray(v, axes=LA[0], dims=D[0])
    # (axes={...} without dims= is not claimed by the statement: "a dict with dims")
    # nested dict / nested list of dict forms
    def nest(vals, labs):
        if len(labs) == 1:
            return {l: x for l, x in zip(labs[0], vals.tolist())}
        return {l: nest(vals[i], labs[1:]) for i, l in enumerate(labs[0])}
    forms["nested dict"] = lambda: da.DimArray(nest(v, L), dims=D)
    if nd >= 2:
        forms["list of nested dict"] = lambda: da.DimArray([nest(v[i], L[1:]) for i in range(len(L[0]))], dims=D, labels=[L[0]])
    exp = m
    for name, fn in forms.items():
        label = "DimArray form %r for dims=%r labels=%s shape=%r" % (name, tuple(D), codec.short(L, 120), v.shape)
        res, exc = ctx.call(label, fn, operands=())
        ctx.outcomes['ctor-forms'] += 1
        common.expect(ctx, ID, "ctor-form:" + name, label, res, exc, exp=exp, must_be_da=True)
    # helpers: shape and axes
    for name, fn, fillv in (("zeros(axes,dims)", lambda: da.zeros(axes=L, dims=D), 0.), ("ones(pairs)", lambda: da.ones(axes=[(d, l) for d, l in zip(D, L)]), 1.),
                            ("empty(Axis objects)", lambda: da.empty(axes=[Axis(l, d) for d, l in zip(D, LA)]), None),
                            ("zeros_like", lambda: da.zeros_like(da.DimArray(v, axes=L, dims=D)), 0.), ("ones_like", lambda: da.ones_like(da.DimArray(v, axes=L, dims=D)), 1.),
                            ("nans_like", lambda: da.nans_like(da.DimArray(v, axes=L, dims=D)), float('nan')), ("empty_like", lambda: da.empty_like(da.DimArray(v, axes=L, dims=D)), None),
                            ("ones(axes=Axis objects, dtype=int)", lambda: da.ones(axes=[Axis(l, d) for d, l in zip(D, LA)], dtype=int), 1.), ("nans(axes,dims)", lambda: da.nans(axes=L, dims=D), float('nan')),
                            ("DimArray(axes=pairs) without values", lambda: da.DimArray(axes=[(d, l) for d, l in zip(D, L)]), float('nan'))):
        label = "%s for dims=%r labels=%s" % (name, tuple(D), codec.short(L, 120))
        res, exc = ctx.call(label, fn, operands=())
        ctx.outcomes['ctor-forms'] += 1
        if exc is not None or not common.is_da(res):
            ctx.v(ID, "ctor-helper:" + name, "%s raised/returned %r" % (label, exc if exc is not None else type(res).__name__))
            continue
        g = model.observe(res)
        e = model.MA(np.full(v.shape, fillv if fillv is not None else 0.), D, L)
        msg = model.compare(g, e, label) if fillv is not None else model.compare(model.MA(np.zeros(v.shape), g.dims, g.labels), model.MA(np.zeros(v.shape), D, L), label)
        if msg:
            ctx.v(ID, "ctor-helper:" + name, msg)
    res, exc = ctx.call("empty(dims, shape)", lambda: da.empty(dims=D, shape=v.shape), operands=())
    if exc is not None or tuple(res.dims) != tuple(D) or res.shape != v.shape:
        ctx.v(ID, "ctor-helper:empty(dims,shape)", "empty(dims=%r, shape=%r) gave %r" % (D, v.shape, exc if exc is not None else (res.dims, res.shape)))
    # ---- rejection: shape disagreeing with the axes, duplicate names, empty name
    bad = []
    L2 = [list(l) for l in L]
    L2[0] = L2[0] + [L2[0][0]] if False else L2[0] + ([99] if sp["kinds"][0] != 's' else ['zz'])
    bad.append(("one label too many", lambda: da.DimArray(v, axes=L2, dims=D)))
    bad.append(("one label too many (Axis objects)", lambda: da.DimArray(v, axes=[Axis(l, d) for d, l in zip(D, L2)])))
    if nd >= 2 and v.shape[0] != v.shape[1]:
        bad.append(("transposed data", lambda: da.DimArray(np.swapaxes(v, 0, 1), axes=L, dims=D)))
        bad.append(("axes in the wrong order", lambda: da.DimArray(v, axes=[(D[1], L[1]), (D[0], L[0])] + [(d, l) for d, l in zip(D[2:], L[2:])])))
    if nd >= 2:
        bad.append(("duplicate dimension names", lambda: da.DimArray(v, axes=L, dims=[D[0]] * nd)))
        bad.append(("duplicate names (pairs)", lambda: da.DimArray(v, axes=[(D[0], l) for l in L])))
        bad.append(("duplicate names (Axis objects)", lambda: da.DimArray(v, axes=[Axis(l, D[0]) for l in LA])))
    bad.append(("empty dimension name", lambda: da.DimArray(v, axes=L, dims=[''] + D[1:])))
    bad.append(("empty name (Axis)", lambda: Axis(L[0], '')))
    bad.append(("missing axis", lambda: da.DimArray(v, axes=L[:-1], dims=D[:-1]) if nd > 1 else da.DimArray(v, axes=[[1, 2, 3, 4, 5, 6, 7]], dims=D)))
    bad.append(("2-D labels for one axis", lambda: da.DimArray(v, axes=[np.zeros((v.shape[0], 2, 2))] + L[1:], dims=D)))
    # the helpers given both the axes and a shape that disagrees with them
    wshape = (v.shape[0] + 1,) + tuple(v.shape[1:])
    for hn_ in ('zeros', 'ones', 'empty', 'nans'):
        bad.append(("%s(axes, shape=<one more along the first dimension>)" % hn_, lambda hn_=hn_: getattr(da, hn_)(axes=[Axis(l, d) for d, l in zip(D, LA)], shape=wshape)))
    if nd >= 2 and v.shape[0] != v.shape[1]:
        bad.append(("zeros(axes, shape=<transposed>)", lambda: da.zeros(axes=[Axis(l, d) for d, l in zip(D, LA)], shape=(v.shape[1], v.shape[0]) + tuple(v.shape[2:]))))
    a0 = da.DimArray(v, axes=L, dims=D)
    bad.append(("axes setter with a wrong size", lambda: setattr(a0, 'axes', da.Axes([Axis(l, d) for d, l in zip(D, L2)]))))
    bad.append(("axes setter (list of Axis objects) with a wrong size", lambda: setattr(a0, 'axes', [Axis(l, d) for d, l in zip(D, L2)])))
    bad.append(("axes setter (list of (name, labels) pairs) with a wrong size", lambda: setattr(a0, 'axes', [(d, l) for d, l in zip(D, L2)])))
    bad.append(("Axes.__setitem__ with a wrong size", lambda: a0.axes.__setitem__(D[0], Axis(L2[0], D[0]))))
    bad.append(("Axis.values setter with a wrong size", lambda: setattr(a0.axes[0], 'values', L2[0])))
    bad.append(("non-str dimension name", lambda: Axis(L[0], 3)))
    if nd >= 2:
        # renaming a dimension onto the name of another one would return / leave an array with duplicate dimension names
        a1, a2, a3 = [da.DimArray(v, axes=L, dims=D) for _ in range(3)]
        ds1 = da.Dataset(v=da.DimArray(v, axes=L, dims=D))
        renamed = [a1, a2, a3, ds1]
        bad.append(("set_axis(name=<existing dimension>, inplace=False)", lambda: a0.set_axis(name=D[1], axis=D[0], inplace=False)))
        bad.append(("set_axis(name=<existing dimension>) by position, in place", lambda: a1.set_axis(name=D[0], axis=1)))
        bad.append(("dims setter with a repeated name", lambda: setattr(a2, 'dims', tuple([D[1], D[1]] + D[2:]))))
        bad.append(("dims setter (dict) onto an existing name", lambda: setattr(a3, 'dims', {D[0]: D[1]})))
        bad.append(("Dataset.rename_axes onto an existing dimension", lambda: ds1.rename_axes({D[0]: D[1]}, inplace=False)))
        bad.append(("Dataset.rename_axes onto an existing dimension, in place", lambda: ds1.rename_axes({D[0]: D[1]})))
        bad.append(("Dataset.set_axis(name=<existing dimension>)", lambda: ds1.set_axis(name=D[1], axis=D[0], inplace=False)))
        bad.append(("Dataset.dims setter with a repeated name", lambda: setattr(ds1, 'dims', tuple([D[1], D[1]] + D[2:]))))
    for name, fn in bad:
        res, exc = ctx.call("rejection case: " + name, fn, operands=())
        ctx.outcomes['ctor-rejections'] += 1
        if exc is None:
            ctx.v(ID, "ctor-accepts:" + name, "constructor accepted ill-formed input (%s) for dims=%r shape=%r labels=%s: got %s" % (
                name, tuple(D), v.shape, codec.short(L, 100), common.brief_res(res)))
    probs = monitors.wf_problems(a0)
    if nd >= 2:
        for o_ in renamed:
            probs = probs or (monitors.wf_problems(o_) if common.is_da(o_) else monitors.ds_problems(o_) or ([] if len(set(o_.dims)) == len(o_.dims) else ["duplicate dimension names %r" % (o_.dims,)]))
    if probs:
        ctx.v(ID, "ctor-left-illformed", "after rejected in-place changes the array is ill-formed: %s" % probs[0])
    return [('ctor', nd, tuple(sp["kinds"]), len(set(v.shape)) == nd)]


# ---------------------------------------------------------------------------------------
# history vs fresh twin
# ---------------------------------------------------------------------------------------
def rebuild_axis(da, ax):
    from dimarray.core.axes import MultiAxis
    if isinstance(ax, MultiAxis):
        return MultiAxis(*[da.Axis(np.array(m_.values, copy=True), m_.name) for m_ in ax.axes])
    return da.Axis(np.array(ax.values, copy=True), ax.name)


def twin(da, x):
    return da.DimArray(np.array(x.values, copy=True), axes=[rebuild_axis(da, ax) for ax in x.axes])


def desc(r):
    if isinstance(r, Exception):
        return ('EXC', type(r).__name__)
    if common.is_da(r):
        return ('DA', tuple(r.dims), tuple(tuple(map(str, l.tolist())) for l in r.labels), r.values.shape,
                repr(np.asarray(r.values, dtype=object).ravel().tolist()))
    if common.is_ds(r):
        return ('DS', tuple(r.dims), tuple((k, desc(dict.__getitem__(r, k))) for k in r.keys()))
    if isinstance(r, (list, tuple)):
        return tuple(desc(q) for q in r)
    return repr(r)


def shifted(da, z):
    from dimarray.core.axes import MultiAxis
    axes = []
    for ax in z.axes:
        if isinstance(ax, MultiAxis) or ax.values.dtype.kind not in 'if' or ax.size < 2:
            axes.append(rebuild_axis(da, ax))
            continue
        v = np.sort(ax.values.astype(float))
        v = np.concatenate([v[1:], [v[-1] + 1]])
        axes.append(da.Axis(v, ax.name))
    return da.DimArray(np.array(z.values, copy=True), axes=axes)


def battery(da, x, y, remake=None):
    """the probes, in order, on x (and y).  With `remake` every probe gets arrays of its own, built just before it: the reference side
    of the comparison has no history at all, not even the probes that came before"""
    from dimarray.core.axes import MultiAxis
    out = []

    def run(name, f):
        nonlocal x, y
        if remake is not None:
            x, y = remake()
        try:
            out.append((name, desc(f())))
        except Exception as e:
            out.append((name, desc(e)))
    grouped = any(isinstance(ax, MultiAxis) for ax in x.axes)
    run('dims', lambda: repr(x.dims))
    run('labels', lambda: tuple(tuple(map(str, l.tolist())) for l in x.labels))
    if x.ndim:
        ax = x.axes[0]
        if ax.size and not isinstance(ax, MultiAxis):
            run('get', lambda: x[ax.values[0]])
            run('slice', lambda: x[ax.values[0]:ax.values[-1]])
            run('sort', lambda: x.sort_axis(axis=0))
            run('rev+', lambda: x + x.ix[::-1])
            run('getname', lambda: x.take(ax.values[-1], axis=ax.name))
            run('attr', lambda: getattr(x, ax.name).tolist() if ',' not in ax.name else None)
            # look-ups of several labels at once, by position and by name, on the first and on the last axis
            run('getlist', lambda: x.take([ax.values[-1], ax.values[0]], axis=0))
            run('take_axis-labels', lambda: x.take_axis([ax.values[-1], ax.values[0]], axis=ax.name))
            run('reindex-rev', lambda: x.reindex_axis(ax.values[::-1].copy(), axis=ax.name))
            if ax.values.dtype.kind in 'iuf':
                # aligned with an array labelled by floats on that dimension (integer labels are cast on the way), ordered like x
                fl = [0.5, 1.5] if ax.values[-1] >= ax.values[0] else [1.5, 0.5]
                run('add-floatlabelled', lambda: x + da.DimArray([10., 20.], axes=[da.Axis(fl, ax.name)]))
                run('align-floatlabelled', lambda: da.align([da.DimArray([10., 20.], axes=[da.Axis(fl, ax.name)]), x], join='outer'))
            if ax.values.dtype.kind in 'if' and ax.size > 1:
                run('interp-mid', lambda: x.interp_axis([float(ax.values.min()), (float(ax.values.min()) + float(ax.values.max())) / 2.0], axis=ax.name))
        lx = x.axes[-1]
        if x.ndim > 1 and lx.size and not isinstance(lx, MultiAxis):
            run('getlist-last', lambda: x.take([lx.values[-1], lx.values[0]], axis=lx.name))
            run('sort-last', lambda: x.sort_axis(axis=lx.name))
            run('reindex-last', lambda: x.reindex_axis(lx.values[::-1].copy(), axis=x.ndim - 1))
        if not grouped:
            # every dimension addressed by its name
            run('sel-each-dim', lambda: [x.take({a_.name: a_.values[0]}) for a_ in x.axes if a_.size])
        if not grouped:
            run('flat', lambda: x.flatten())
            run('flatlab', lambda: repr(x.flatten().labels[0].tolist()))
        run('unflat', lambda: x.unflatten())
        run('mean', lambda: x.mean(axis=0))
        run('T', lambda: x.transpose(*range(x.ndim)[::-1]))
        run('reshape', lambda: x.reshape(list(x.dims)[::-1]))
    if not grouped and not any(isinstance(ax, MultiAxis) for ax in y.axes):
        run('align', lambda: da.align([x, y]))
        run('alignshift', lambda: da.align([x, shifted(da, x)]))
        run('addshift', lambda: x + shifted(da, x))
        run('align-inner-sort', lambda: da.align([x, shifted(da, x)], join='inner', sort=True))
    return out


def twin_program(case, ctx):
    import random
    da = __import__("vp.boot", fromlist=["boot"]).boot()
    from dimarray.core.axes import MultiAxis
    rng = random.Random(case["seed"])
    pool = [gen.build(sp) for sp in case["pool"]]
    if case["seed"] % 3 == 0:
        # default labels (0..n-1 on every axis) and equal sizes, built through the label-less constructor forms
        n_ = 2 + case["seed"] % 2
        pool.append(rng.choice([lambda: da.DimArray(np.arange(float(n_ * n_)).reshape(n_, n_)),
                                lambda: da.DimArray(np.arange(float(n_ * n_)).reshape(n_, n_), dims=['p', 'q']),
                                lambda: da.zeros(shape=(n_, n_)) + np.arange(float(n_ * n_)).reshape(n_, n_)])())
    hist = []
    ctr = [0]
    kinds_seen = set()

    def fresh(prefix):
        ctr[0] += 1
        return "%s%d" % (prefix, ctr[0])
    pending = []
    for step in range(case["nsteps"]):
        x = rng.choice(pool)
        op = rng.choice(STEPS)
        if pending:
            # second half of 'setaxis_from_other': the array the labels were taken from is relabelled in place (first and last label exchanged)
            y_, j_ = pending.pop()
            try:
                nv_ = y_.axes[j_].values.copy()
                nv_[0], nv_[-1] = nv_[-1], nv_[0]         # (an ordered axis of more than two labels is no longer ordered)
                y_.axes[j_][:] = nv_
                hist.append(('relabel_source_swapped_ends', tuple(y_.dims)))
            except Exception:
                pass
        if x.ndim == 0 and op not in ('add', 'newaxis', 'align'):
            continue
        k = rng.randrange(x.ndim) if x.ndim else 0
        ax = x.axes[k] if x.ndim else None
        grouped = any(isinstance(a_, MultiAxis) for a_ in x.axes)
        plain = ax is not None and not isinstance(ax, MultiAxis) and ax.size > 0
        numeric = plain and ax.values.dtype.kind in 'if'
        r = None
        hist.append((op, tuple(x.dims)))
        try:
            if op == 'getlist' and plain:
                r = x.take([ax.values[rng.randrange(ax.size)] for _ in range(2)], axis=k)
            elif op == 'slice' and plain:
                r = x.ix[tuple([slice(None)] * k + [slice(0, None, 2)])]
            elif op == 'fullslice':
                r = x[:]
            elif op == 'take_axis' and plain:
                r = x.take_axis([0], axis=k, indexing='position')
            elif op == 'put' and plain:
                x.put(ax.values[0], 1.5, axis=k)
            elif op == 'add':
                y = rng.choice(pool)
                if not grouped and not any(isinstance(a_, MultiAxis) for a_ in y.axes):
                    r = x + y
            elif op == 'mean':
                r = x.mean(axis=k)
            elif op == 'transpose':
                p = list(range(x.ndim))
                rng.shuffle(p)
                r = x.transpose(p)
            elif op == 'squeeze':
                r = x.squeeze()
            elif op == 'newaxis':
                r = x.newaxis(fresh('n'), pos=rng.randint(0, x.ndim))
            elif op == 'flatten' and not grouped:
                sub = rng.sample(list(x.dims), rng.randint(1, x.ndim))
                r = x.flatten(sub, insert=0)
            elif op == 'unflatten':
                r = x.unflatten()
            elif op == 'reshape' and not grouped:
                d_ = list(x.dims)
                rng.shuffle(d_)
                r = x.reshape(d_)
            elif op == 'reindex' and plain:
                r = x.reindex_axis(ax.values[::-1].copy(), axis=k)
            elif op == 'align':
                y = rng.choice(pool)
                if not grouped and not any(isinstance(a_, MultiAxis) for a_ in y.axes):
                    r = da.align([x, y], sort=rng.random() < 0.5)[0]
            elif op == 'stack' and not grouped:
                r = da.stack([x, x], axis=fresh('s'))
            elif op == 'concat' and plain:
                r = da.concatenate([x, x], axis=k)
            elif op == 'sort' and plain:
                r = x.sort_axis(axis=k)
            elif op == 'cumsum':
                r = x.cumsum(axis=k)
            elif op == 'querymono' and ax is not None and not isinstance(ax, MultiAxis):
                ax.is_monotonic()
            elif op == 'querylabels':
                x.labels
            elif op == 'relabel' and numeric:
                ax[rng.randrange(ax.size)] = 1000 + 13 * step + ctr[0]
            elif op == 'relabel_attr' and numeric and ',' not in ax.name:
                setattr(x, ax.name, (np.arange(ax.size) + 2000 + 10 * step)[::-1])
            elif op == 'labels_setter' and not grouped and all(a_.values.dtype.kind in 'if' for a_ in x.axes):
                x.labels = [np.arange(a_.size) * 2 + 5000 + 10 * step for a_ in x.axes]
            elif op == 'setaxis' and plain:
                if k == 0:
                    x.set_axis(list(range(3000 + 10 * step, 3000 + 10 * step + ax.size))[::-1])       # axis=0 is the default
                else:
                    x.set_axis(list(range(3000 + 10 * step, 3000 + 10 * step + ax.size))[::-1], axis=k)
            elif op == 'setaxis_dict' and numeric:
                x.set_axis({ax.values[0]: 7000 + step}, axis=k)
            elif op == 'rename' and ax is not None and not isinstance(ax, MultiAxis):
                ax.name = fresh(ax.name[0] + 'r')
            elif op == 'relabel_widen' and plain and ax.size > 1 and ax.values.dtype.kind in 'iu':
                # in-place relabelling that needs another label type (int -> float, int -> str), to labels in no particular order
                x.mean(axis=k), x + x.ix[::-1] if not grouped else None        # (the axis has been aligned before: whatever that cached)
                neu = [2.5 + 10 * step + 3 * ((7 * i_) % ax.size) for i_ in range(ax.size)]
                if rng.random() < 0.4:
                    neu = ["s%d" % v_ for v_ in neu]
                how = rng.choice(['slice', 'set_axis', 'attr'])
                if how == 'slice' or ',' in ax.name:
                    ax[:] = neu
                elif how == 'set_axis':
                    x.set_axis(neu, axis=k)
                else:
                    setattr(x, ax.name, neu)
            elif op == 'setaxis_from_other' and plain and ax.size > 1:
                # labels taken from another live array (its label ndarray itself is passed) - which is relabelled in place afterwards
                # (same labels in another order, same type): x keeps the labels it was given
                cand = [(y_, j_) for y_ in pool for j_ in range(y_.ndim) if y_ is not x and not isinstance(y_.axes[j_], MultiAxis)
                        and y_.axes[j_].size == ax.size and y_.axes[j_].values.dtype.kind in 'if' and len(set(y_.axes[j_].values.tolist())) > 1]
                if cand:
                    y_, j_ = rng.choice(cand)
                    x.set_axis(y_.axes[j_].values, axis=k)
                    pending.append((y_, j_))
            elif op == 'permute_labels' and plain and ax.size > 1:
                # in-place relabelling with the same labels in another order (same dtype: the label buffer is written in place)
                perm = ax.values.copy()
                for _ in range(6):      # (an axis of repeated labels, e.g. after concatenate([x, x]), has no other order)
                    if not np.array_equal(perm, ax.values):
                        break
                    perm = perm[np.array(rng.sample(range(ax.size), ax.size))]
                how = rng.choice(['slice', 'set_axis', 'attr'])
                if how == 'slice' or ',' in ax.name:
                    ax[:] = perm
                elif how == 'set_axis':
                    x.set_axis(perm, axis=k)
                else:
                    setattr(x, ax.name, perm)
            elif op == 'swapnames' and x.ndim > 1 and not grouped:
                # on a deep copy: other live arrays may share these Axis objects (transpose, squeeze), and a rename seen through
                # a shared Axis is the aliasing that section 7.8 leaves unasserted
                r = x.copy()
                j = rng.choice([i for i in range(x.ndim) if i != k])
                r.take({a_.name: a_.values[0] for a_ in r.axes if a_.size})      # every dimension has been addressed by name
                a0, a1 = r.axes[k], r.axes[j]
                a0.name, a1.name = a1.name, a0.name
            elif op == 'rename_reuse' and x.ndim > 1 and not grouped:
                # one dimension gets a new name, then another one takes the name it had
                r = x.copy()
                j = rng.choice([i for i in range(x.ndim) if i != k])
                r.take({a_.name: a_.values[0] for a_ in r.axes if a_.size})
                old_ = r.axes[k].name
                r.axes[k].name = fresh(old_[0] + 'q')
                r.axes[j].name = old_
            elif op == 'interp' and numeric and ax.size > 1:
                lo_, hi_ = float(ax.values.min()), float(ax.values.max())
                r = x.interp_axis([lo_, (lo_ + hi_) / 2.0, hi_], axis=k)
            elif op == 'getlist_name' and plain:
                r = x.take({ax.name: [ax.values[-1], ax.values[0]]})
            elif op == 'dataset' and not grouped:
                ds = da.Dataset()
                ds['v'] = x
                r = ds['v']
            elif op == 'dataset_rename' and not grouped and x.ndim:
                ds = da.Dataset()
                ds['v'] = x
                ds['w'] = x.mean(axis=0) if x.ndim > 1 else x * 2
                ds.axes[x.dims[-1]].name = fresh('d')
                if x.axes[-1].size and x.axes[-1].values.dtype.kind in 'if':
                    ds.axes[-1][0] = 9000 + step
                r = ds['v']
            else:
                hist.pop()
                continue
            kinds_seen.add(op)
            if common.is_da(r) and r.ndim <= 4 and r.size <= 150:
                monitors.check_result(r, "twin step " + op)
                pool.append(r)
            if len(pool) > 6:
                pool.pop(rng.randrange(len(pool)))
        except Exception as ex:
            # the raise itself is judged by the property that owns the operation
            ctx.outcomes['twin-step-raised'] += 1
            hist[-1] = hist[-1] + ('EXC ' + type(ex).__name__,)
            continue
        ctx.outcomes['twin-steps'] += 1
        other = pool[0]
        for i, z in enumerate(pool):
            for p in monitors.wf_problems(z):
                ctx.v(ID, "twin-illformed", "live array %d ill-formed after history %r: %s" % (i, hist[-6:], p))
            try:
                tw = twin(da, z)
                tother = twin(da, other)
            except Exception as ex:
                ctx.v(ID, "twin-rebuild-failed", "cannot rebuild array %d from its observable state after %r: %s %s" % (i, hist[-6:], type(ex).__name__, str(ex)[:100]))
                continue
            b1 = battery(da, z, other)
            b2 = battery(da, tw, tother, remake=lambda: (twin(da, z), twin(da, other)))
            ctx.outcomes['twin-comparisons'] += 1
            for (k1, d1), (k2, d2) in zip(b1, b2):
                if d1 != d2:
                    ctx.v(ID, "twin-diverges:" + k1, "after history %r, probe %r answers %s on the history-laden array (dims %r) but %s on a freshly built twin" % (
                        hist[-8:], k1, codec.short(d1, 300), tuple(z.dims), codec.short(d2, 300)))
                    return [('twin', 'diverged')]
    n = case["nsteps"]
    return [('twin', tuple(sorted(kinds_seen)), 'short' if n < 5 else 'long')]


def check(case, ctx):
    if case["block"] == "ctor":
        return ctor(case, ctx)
    return twin_program(case, ctx)
