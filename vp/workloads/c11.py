"""C11 - flatten, unflatten and reshape group dimensions losslessly."""
import itertools
import numpy as np
from .. import gen, model, codec, monitors
from . import common, c10

ID = "C11"
LEVEL = "exploration"
RULE = ("arrays of 1-4 dims with disjoint label sets, mixed label kinds, distinct or equal lengths; family 'flatten' enumerates for the "
        "array every ordered non-empty subset of its dims x every insert position (and the default) x argument form {tuple,list,set,variadic}; "
        "'unflatten' checks flatten->unflatten for each; 'reshape' draws target lists that permute, regroup (comma names), add a new singleton "
        "and drop singletons; 'tuplereduce' compares reduction over a tuple of dims with the flattened group and NumPy. "
        "flatten also with dimensions by position and with reverse=True (names / positions / mixed). class = (family, ndim, regime, kinds, subset size / target shape); trivial = none")
ANCHORS = ["reshape.flatten", "reshape.unflatten", "reshape.reshape", "axes._get_values", "axes._flatten", "transform._deal_with_axis"]
# entry points the workload calls itself; the other anchors are helpers behind them (counted as evidence only)
ANCHORS_REQUIRED = ["reshape.flatten", "reshape.unflatten", "reshape.reshape"]
FLOORS = {"quick": {"evaluations": 600, "distinct": 60, "outcome:flatten-variants": 8000, "outcome:unflatten-roundtrips": 4000, "outcome:reshape-targets": 150},
          "thorough": {"evaluations": 10000, "distinct": 100}}


def shards(tier, seed, scale=1.0):
    return common.rand_shards(ID, tier, seed, scale, 1280, 30000)


def cases(desc):
    rng = common.rng_for(ID, desc)
    for i in range(desc["n"]):
        fam = rng.choice(['flatten', 'flatten', 'reshape', 'reshape', 'tuplereduce'])
        sp = c10.dspec(rng, nd=rng.randint(1, 4))
        yield {"family": fam, "a": sp, "seed": rng.randrange(10 ** 6)}


def tuples_match(got, exp):
    """grouped labels: i-th entry corresponds to the i-th combination (== or equal str())"""
    if len(got) != len(exp):
        return False, False
    loose = False
    for g, e in zip(got, exp):
        g = tuple(g) if isinstance(g, (tuple, list)) else (g,)
        if len(g) != len(e):
            return False, loose
        for x, y in zip(g, e):
            if model.lab_eq(x, y):
                continue
            if str(x) == str(y):
                loose = True
                continue
            return False, loose
    return True, loose


def check_flat(ctx, label, r, m, sub, insert, key):
    """r: result DimArray of flattening `sub` (ordered) of model m, group expected at `insert` (or None = unasserted)"""
    da = __import__("vp.boot", fromlist=["boot"]).boot()
    from dimarray.core.axes import MultiAxis
    gname = ",".join(sub)
    rest = [d for d in m.dims if d not in sub]
    if insert is not None:
        ed = rest[:insert] + [gname] + rest[insert:]
        if list(r.dims) != ed:
            ctx.v(ID, key + ":dims", "%s: dims %r, expected %r" % (label, r.dims, tuple(ed)))
            return False
    else:
        if gname not in r.dims or [d for d in r.dims if d != gname] != rest:
            ctx.v(ID, key + ":dims", "%s: dims %r, expected %r with %r inserted somewhere" % (label, r.dims, tuple(rest), gname))
            return False
    g = r.axes[gname]
    if not isinstance(g, MultiAxis):
        ctx.v(ID, key + ":not-grouped", "%s: axis %r is %s, not a grouped axis" % (label, gname, type(g).__name__))
        return False
    members = [ax.name for ax in g.axes]
    if members != list(sub):
        ctx.v(ID, key + ":members", "%s: grouped axis members %r, expected %r" % (label, members, list(sub)))
        return False
    for ax in g.axes:
        if not model.labels_eq(ax.values.tolist(), m.labels[m.dims.index(ax.name)]):
            ctx.v(ID, key + ":member-labels", "%s: member axis %r has labels %r, source has %r" % (label, ax.name, ax.values.tolist(), m.labels[m.dims.index(ax.name)]))
            return False
    combos = list(itertools.product(*[m.labels[m.dims.index(d)] for d in sub]))
    gv = g.values.tolist()
    ok, loose = tuples_match(gv, combos)
    if not ok:
        ctx.v(ID, key + ":grouped-labels", "%s: grouped labels %s do not follow the row-major product %s" % (label, codec.short(gv, 150), codec.short(combos, 150)))
        return False
    if loose:
        ctx.relaxed['grouped tuple labels equal only as str (mixed str/number members)'] += 1
    # values: position i on the grouped axis <-> i-th combination
    gpos = list(r.dims).index(gname)
    rv = r.values
    for pos in itertools.product(*[range(n) for n in rv.shape]):
        coord = {}
        for k, (d, p) in enumerate(zip(r.dims, pos)):
            if d == gname:
                for s, l in zip(sub, combos[p]):
                    coord[s] = l
            else:
                coord[d] = r.axes[d].values[p]
        f, v = model.lookup(m, coord)
        if not f or not model.lab_eq(rv[pos], v):
            ctx.v(ID, key + ":values", "%s: value at %r is %r, the source has %r there" % (label, coord, rv[pos], v))
            return False
    for d in rest:
        if not model.labels_eq(r.axes[d].values.tolist(), m.labels[m.dims.index(d)]):
            ctx.v(ID, key + ":other-labels", "%s: labels of %r changed" % (label, d))
            return False
    return True


def check(case, ctx):
    import random
    da = __import__("vp.boot", fromlist=["boot"]).boot()
    rng = random.Random(case["seed"])
    sp = case["a"]
    m = model.from_spec(sp)
    a = gen.build(sp)
    nd = m.ndim
    fam = case["family"]
    for ax in a.axes:
        if ax.values.dtype.kind in 'if' and rng.random() < 0.3:
            ax.tol = 0.125        # part of the axis, like its metadata: "unflatten restores the member axes exactly"
    axis_state = {ax.name: (monitors.freeze(dict(ax.attrs)), ax.tol) for ax in a.axes}
    base = " on dims=%r shape=%r" % (m.dims, m.shape)
    vclasses = set()
    if fam == 'flatten':
        for n in range(1, nd + 1):
            for sub in itertools.permutations(m.dims, n):
                for ins in [None] + list(range(0, nd - n + 1)):
                    form = rng.choice(['tuple', 'list', 'set', 'var', 'positions', 'reverse', 'reverse-positions', 'reverse-mixed'])
                    if form.startswith('reverse') and n == nd:
                        form = 'tuple'
                    kw = {} if ins is None else {"insert": ins}
                    esub = list(sub)
                    if form == 'positions':
                        # the dimensions to group designated by position
                        arg = tuple(m.dims.index(d_) for d_ in sub)
                        fn = lambda arg=arg, kw=kw: a.flatten(arg, **kw)
                        ctx.outcomes['flatten-dims-by-position'] += 1
                    elif form.startswith('reverse'):
                        # reverse=True: the listed dimensions are the ones to keep, all the others are grouped (in the array's order)
                        kept = [d_ for d_ in m.dims if d_ not in sub]
                        rng.shuffle(kept)
                        esub = [d_ for d_ in m.dims if d_ in sub]
                        arg = tuple(m.dims.index(d_) if (form == 'reverse-positions' or (form == 'reverse-mixed' and i_ % 2 == 0)) else d_ for i_, d_ in enumerate(kept))
                        kw = dict(kw, reverse=True)
                        fn = lambda arg=arg, kw=kw: a.flatten(arg, **kw)
                        ctx.outcomes['flatten-' + form] += 1
                    elif form == 'set':
                        arg = set(sub)
                        esub = [d for d in m.dims if d in sub]
                        fn = lambda arg=arg, kw=kw: a.flatten(arg, **kw)
                    elif form == 'var':
                        fn = lambda sub=sub, kw=kw: a.flatten(*sub, **kw)
                    else:
                        arg = tuple(sub) if form == 'tuple' else list(sub)
                        fn = lambda arg=arg, kw=kw: a.flatten(arg, **kw)
                    label = "a.flatten(%s %r, insert=%r)" % (form, list(sub), ins) + base
                    if form in ('positions', 'reverse', 'reverse-positions', 'reverse-mixed'):
                        label = "a.flatten(%r, %s)" % (arg, ", ".join("%s=%r" % kv for kv in sorted(kw.items()))) + base
                    pos_ = [m.dims.index(d_) for d_ in sub]
                    vclasses.add(('flatten', nd, n, 'inorder' if pos_ == sorted(pos_) else 'reordered',
                                  'contiguous' if max(pos_) - min(pos_) == n - 1 else 'gaps', ins, form, sp["regime"]))
                    if n > 1 and rng.random() < 0.3:
                        # the same grouping has been asked for before, and that earlier result's grouped axis renamed / annotated in place
                        try:
                            first_ = fn()
                            g_ = [ax_ for ax_ in first_.axes if ',' in ax_.name][0]
                            g_.attrs['note'] = 'cells of the first result'
                            g_.name = 'cell9'
                            label = label + " (asked a second time; the first result's grouped axis was renamed 'cell9' in place)"
                            ctx.outcomes['flatten-asked-twice'] += 1
                        except Exception:
                            pass
                    res, exc = ctx.call(label, fn, operands=(a,), meta='carry')
                    ctx.outcomes['flatten-variants'] += 1
                    if exc is not None:
                        ctx.v(ID, "flatten:raised:" + type(exc).__name__, "%s raised %s: %s" % (label, type(exc).__name__, str(exc)[:150]))
                        continue
                    if not common.is_da(res):
                        ctx.v(ID, "flatten:not-dimarray", "%s returned %s" % (label, type(res).__name__))
                        continue
                    if not check_flat(ctx, label, res, m, esub, ins, "flatten" if ins is not None else "flatten-default-insert"):
                        continue
                    # unflatten restores the member axes; coordinates preserved - also when the grouped array has been copied,
                    # indexed along another dimension or passed through newaxis / squeeze in between (it still is the same
                    # grouped array: same dims, labels and values)
                    mid = rng.choice([None, None, 'copy', 'deepcopy', 'index-other', 'newaxis-squeeze', 'fullslice', 'pickle', 'take_axis-other', 'reindex-other', 'arith-self'])
                    gname_ = ",".join(esub)
                    others_ = [d_ for d_ in res.dims if d_ != gname_]
                    # (a list of bools is a mask, not a list of labels: no selection by label along a False / True axis)
                    others_ = [d_ for d_ in others_ if res.axes[d_].values.dtype.kind != 'b'] if mid == 'index-other' else others_
                    if mid in ('index-other', 'take_axis-other', 'reindex-other') and not others_:
                        mid = 'copy'
                    if mid == 'arith-self' and (res.values.dtype.kind not in 'iuf' or (res.values.dtype.kind == 'f' and np.isinf(res.values).any())):
                        mid = 'deepcopy'
                    if mid is not None:
                        import copy as _copy
                        import pickle as _pickle
                        try:
                            if mid == 'copy':
                                res = res.copy()
                            elif mid == 'deepcopy':
                                res = _copy.deepcopy(res)
                            elif mid == 'pickle':
                                res = _pickle.loads(_pickle.dumps(res))
                            elif mid == 'fullslice':
                                res = res[:]
                            elif mid == 'newaxis-squeeze':
                                res = res.newaxis('nq', pos=rng.randint(0, res.ndim)).squeeze('nq')
                            elif mid == 'take_axis-other':
                                od = rng.choice(others_)
                                res = res.take_axis(list(range(res.axes[od].size)), axis=od, indexing='position')
                            elif mid == 'reindex-other':
                                od = rng.choice(others_)
                                res = res.reindex_axis(res.axes[od].values.copy(), axis=od)
                            elif mid == 'arith-self':
                                res = res + (res - res)          # array-with-array arithmetic (the axes of both operands are merged one by one)
                                res.attrs.update(monitors.sentinel_attrs())
                            else:
                                od = rng.choice(others_)
                                res = res.take({od: res.axes[od].values.tolist()})
                            ctx.outcomes['unflatten-after-' + mid] += 1
                        except Exception as mexc:
                            ctx.v(ID, "unflatten:mid-step-raised", "%s on the result of %s raised %s: %s" % (mid, label, type(mexc).__name__, str(mexc)[:120]))
                            continue
                        label = label + " then " + mid
                    u, uexc = ctx.call("(%s).unflatten()" % label, lambda res=res: res.unflatten(), operands=(res, a), meta='carry', ambient=True)
                    ctx.outcomes['unflatten-roundtrips'] += 1
                    if uexc is not None:
                        ctx.v(ID, "unflatten:raised:" + type(uexc).__name__, "unflatten after %s raised %s: %s" % (label, type(uexc).__name__, str(uexc)[:150]))
                        continue
                    g = model.observe(u)
                    gname = ",".join(esub)
                    gi = list(res.dims).index(gname)
                    ed = list(res.dims[:gi]) + esub + list(res.dims[gi + 1:])
                    if list(g.dims) != ed:
                        ctx.v(ID, "unflatten:dims", "unflatten after %s: dims %r, expected %r" % (label, g.dims, tuple(ed)))
                        continue
                    bad = [d for d, lg in zip(g.dims, g.labels) if not model.labels_eq(lg, m.labels[m.dims.index(d)])]
                    if bad:
                        ctx.v(ID, "unflatten:labels", "unflatten after %s: labels of %r are %r, expected %r" % (label, bad[0], g.labels[g.dims.index(bad[0])], m.labels[m.dims.index(bad[0])]))
                        continue
                    msg = model.check_coordmap(g, m, "unflatten after " + label)
                    if msg:
                        ctx.v(ID, "unflatten:coordmap", msg)
                    lost = [(d_, (monitors.freeze(dict(u.axes[d_].attrs)), u.axes[d_].tol)) for d_ in esub
                            if (monitors.freeze(dict(u.axes[d_].attrs)), u.axes[d_].tol) != axis_state[d_]]
                    if lost:
                        ctx.v(ID, "unflatten:member-axis-state", "unflatten after %s: axis %r came back with (attrs, tol) = %r, the original has %r" % (
                            label, lost[0][0], (dict(u.axes[lost[0][0]].attrs), u.axes[lost[0][0]].tol), (dict(a.axes[lost[0][0]].attrs), a.axes[lost[0][0]].tol)))
        # flatten() of everything, and unflatten(axis=...) by name / position
        res, exc = ctx.call("a.flatten()" + base, lambda: a.flatten(), operands=(a,), meta='carry', ambient=True)
        if exc is not None or not common.is_da(res):
            ctx.v(ID, "flatten-all:raised", "a.flatten()%s raised %r" % (base, exc))
        elif check_flat(ctx, "a.flatten()" + base, res, m, list(m.dims), 0, "flatten-all"):
            for ax in (0, ",".join(m.dims)):
                u, uexc = ctx.call("a.flatten().unflatten(axis=%r)" % (ax,) + base, lambda ax=ax: res.unflatten(axis=ax), operands=(res,), meta='carry', ambient=True)
                if uexc is not None:
                    ctx.v(ID, "unflatten:raised:" + type(uexc).__name__, "a.flatten().unflatten(axis=%r)%s raised %s" % (ax, base, uexc))
                else:
                    msg = model.compare(model.observe(u), m, "a.flatten().unflatten(axis=%r)%s" % (ax, base))
                    if msg:
                        ctx.v(ID, "unflatten:all", msg)
        return [('flatten', nd, sp["regime"], tuple(sorted(sp["kinds"])))] + sorted(vclasses, key=str)
    if fam == 'reshape':
        out = None
        for rep in range(6):
            dims = list(m.dims)
            rng.shuffle(dims)
            drop = [d for d in dims if m.shape[m.dims.index(d)] == 1 and rng.random() < 0.5]
            dims = [d for d in dims if d not in drop]
            new = []
            if rng.random() < 0.4:
                dims.insert(rng.randint(0, len(dims)), 'n')
                new = ['n']
            tgt = []
            i = 0
            while i < len(dims):
                k = rng.choice([1, 1, 2, 3])
                tgt.append(",".join(dims[i:i + k]))
                i += k
            variadic = rng.random() < 0.5
            label = "a.reshape(%s%r)" % ('*' if variadic else '', tgt) + base
            fn = (lambda tgt=tgt: a.reshape(*tgt)) if variadic else (lambda tgt=tgt: a.reshape(tgt))
            res, exc = ctx.call(label, fn, operands=(a,), meta='carry' if tuple(tgt) != tuple(m.dims) else None, ambient=True)
            ctx.outcomes['reshape-targets'] += 1
            if exc is not None:
                ctx.v(ID, "reshape:raised:" + type(exc).__name__, "%s raised %s: %s" % (label, type(exc).__name__, str(exc)[:150]))
                continue
            if not common.is_da(res):
                if len(tgt) == 0:
                    continue
                ctx.v(ID, "reshape:not-dimarray", "%s returned %s" % (label, type(res).__name__))
                continue
            if list(res.dims) != tgt:
                ctx.v(ID, "reshape:dims", "%s: dims %r, expected %r" % (label, res.dims, tuple(tgt)))
                continue
            u, uexc = ctx.call("(%s).unflatten()" % label, lambda res=res: res.unflatten(), operands=(res,), ambient=True)
            if uexc is not None:
                ctx.v(ID, "reshape:unflatten-raised", "unflatten after %s raised %s: %s" % (label, type(uexc).__name__, str(uexc)[:150]))
                continue
            g = model.observe(u)
            if list(g.dims) != dims:
                ctx.v(ID, "reshape:unflattened-dims", "unflatten after %s: dims %r, expected %r" % (label, g.dims, tuple(dims)))
                continue
            bad = [d for d, lg in zip(g.dims, g.labels) if d in m.dims and not model.labels_eq(lg, m.labels[m.dims.index(d)])]
            if bad:
                ctx.v(ID, "reshape:labels", "%s: labels of %r are %r, expected %r" % (label, bad[0], g.labels[g.dims.index(bad[0])], m.labels[m.dims.index(bad[0])]))
                continue
            msg = model.check_coordmap(g, m, "unflatten after " + label, introduced=tuple(new))
            if msg:
                ctx.v(ID, "reshape:coordmap", msg)
            # grouped labels of each group follow the product order
            for t in tgt:
                if ',' in t:
                    combos = list(itertools.product(*[m.labels[m.dims.index(d)] if d in m.dims else [None] for d in t.split(',')]))
                    ok, loose = tuples_match(res.axes[t].values.tolist(), combos)
                    if not ok:
                        ctx.v(ID, "reshape:grouped-labels", "%s: labels of %r are %s, expected the product %s" % (label, t, codec.short(res.axes[t].values.tolist(), 120), codec.short(combos, 120)))
            out = len(tgt)
        return ('reshape', nd, sp["regime"], tuple(sorted(sp["kinds"])))
    # tuple reductions == reductions over the flattened group == NumPy with a tuple axis
    for rep in range(4):
        sub = rng.sample(list(m.dims), rng.randint(1, nd))
        f = rng.choice(['sum', 'mean', 'max', 'min', 'std'])
        skipna = rng.random() < 0.5
        v_ = m.values
        a.values[...] = v_
        if skipna and v_.dtype.kind == 'f' and v_.size > 1:
            # NaNs spread unevenly over the group: a mean of partial means differs from the mean over the group
            v_ = v_.copy()
            holes = [rng.random() < 0.35 for _ in range(v_.size)]
            if all(holes):
                holes[0] = False
            v_.ravel()[np.array(holes)] = np.nan
            a.values[...] = v_
        kw = {"skipna": True} if skipna else {}
        label = "a.%s(axis=%r%s)" % (f, tuple(sub), ", skipna=True" if skipna else "") + base
        r1, e1 = ctx.call(label, lambda: getattr(a, f)(axis=tuple(sub), **kw), operands=(a,), ambient=True)
        r2, e2 = ctx.call("a.flatten(%r, insert=0).%s(axis=0)" % (tuple(sub), f) + base, lambda: getattr(a.flatten(tuple(sub), insert=0), f)(axis=0, **kw), operands=(a,), ambient=True)
        with np.errstate(all='ignore'), __import__('warnings').catch_warnings():
            __import__('warnings').simplefilter('ignore')
            e = getattr(np, ('nan' if skipna else '') + f)(v_, axis=tuple(m.dims.index(d) for d in sub))
        ctx.outcomes['tuple-reductions' + ('-skipna' if skipna else '')] += 1
        keep = [i for i in range(nd) if m.dims[i] not in sub]
        exp = model.MA(e, [m.dims[i] for i in keep], [m.labels[i] for i in keep])
        common.expect(ctx, ID, "tuplereduce", label, r1, e1, exp=exp, rtol=1e-9, atol=1e-9)
        common.expect(ctx, ID, "tuplereduce-flat", "flatten+reduce for " + label, r2, e2, exp=exp, rtol=1e-9, atol=1e-9)
    # label-returning transforms over a tuple of dimensions: same as over the group flattened in the listed order
    for rep in range(2):
        sub = rng.sample(list(m.dims), rng.randint(1, nd))
        f = rng.choice(['argmax', 'argmin'])
        a.values[...] = m.values
        label = "a.%s(axis=%r)" % (f, tuple(sub)) + base
        r1, e1 = ctx.call(label, lambda: getattr(a, f)(axis=tuple(sub)), operands=(a,), ambient=True)
        r2, e2 = ctx.call("a.flatten(%r, insert=0).%s(axis=0)" % (tuple(sub), f) + base, lambda: getattr(a.flatten(tuple(sub), insert=0), f)(axis=0), operands=(a,), ambient=True)
        ctx.outcomes['tuple-arg-extrema'] += 1
        if (e1 is None) != (e2 is None):
            ctx.v(ID, "tuple-arg:exc-parity", "%s: %r, over the flattened group: %r" % (label, e1, e2))
        elif e1 is None:
            d1 = np.asarray(r1.values if common.is_da(r1) else r1, dtype=object).ravel().tolist() if not isinstance(r1, tuple) else [r1]
            d2 = np.asarray(r2.values if common.is_da(r2) else r2, dtype=object).ravel().tolist() if not isinstance(r2, tuple) else [r2]
            same = len(d1) == len(d2) and all(tuples_match([x], [y if isinstance(y, tuple) else (y,)])[0] if isinstance(x, (tuple, list)) else model.lab_eq(x, y) for x, y in zip(d1, d2))
            if not same:
                ctx.v(ID, "tuple-arg:differs", "%s gives %s, the same over the flattened group gives %s" % (label, codec.short(d1, 150), codec.short(d2, 150)))
    return ('tuplereduce', nd, sp["regime"])
