"""C07 - reindexing moves data together with its labels."""
import numpy as np
from .. import gen, model, codec
from . import common

ID = "C07"
LEVEL = "exploration"
RULE = ("random arrays (1-4 dims, int/float data, label kinds int/float/str in any order) x axis (by name / position) x new label sequence "
        "{subset, superset, disjoint, permuted, repeated, empty, own labels, other numeric kind} given as {list, ndarray, Axis} x fill "
        "{NaN, int, float} x raise_error x method {None,left,right}; reindex_like over templates sharing 0-3 dims; narrow data with same-kind fill values the type cannot hold. class = (kind, order, "
        "mode, form, fill kind, data kind, raise_error, method, ndim, axis position); trivial = none")
ANCHORS = ["align.reindex_axis", "align.reindex_like", "indexing.locate_many", "dimarraycls.take_axis"]
# entry points the workload calls itself; the other anchors are helpers behind them (counted as evidence only)
ANCHORS_REQUIRED = ["align.reindex_axis", "align.reindex_like"]
FLOORS = {"quick": {"evaluations": 2500, "distinct": 800, "outcome:filled": 300, "outcome:raise-error-raised": 50},
          "thorough": {"evaluations": 50000, "distinct": 3000}}
MODES = ['subset', 'superset', 'disjoint', 'perm', 'repeat', 'empty', 'self', 'otherkind']


def shards(tier, seed, scale=1.0):
    return common.rand_shards(ID, tier, seed, scale, 6000, 150000)


def cases(desc):
    rng = common.rng_for(ID, desc)
    for i in range(desc["n"]):
        yield gen_case(rng)


def new_labels(rng, old, kind, mode):
    if mode == 'subset':
        return rng.sample(old, rng.randint(1, len(old)))
    if mode == 'superset':
        new = list(old)
        for _ in range(rng.randint(1, 3)):
            new.append(gen.absent_label(rng, new, kind))
        rng.shuffle(new)
        return new
    if mode == 'disjoint':
        new = []
        for _ in range(rng.randint(1, 3)):
            new.append(gen.absent_label(rng, old + new, kind))
        return new
    if mode == 'perm':
        new = list(old)
        rng.shuffle(new)
        return new
    if mode == 'repeat':
        return [rng.choice(old) for _ in range(rng.randint(2, 5))]
    if mode == 'empty':
        return []
    if mode == 'otherkind' and kind in 'if':
        # same numbers in the other numeric kind (1 == 1.0), plus possibly a missing one
        conv = float if kind == 'i' else (lambda v: int(v) if float(v).is_integer() else int(v) + 1000)
        new = [conv(v) for v in rng.sample(old, rng.randint(1, len(old)))]
        if kind == 'i' and rng.random() < 0.6:
            # fractional labels requested on an integer axis: missing, and must come back un-truncated
            for _ in range(rng.randint(1, 2)):
                new.insert(rng.randint(0, len(new)), rng.choice(old) + rng.choice([0.5, 0.25, -0.5]))
        return new
    return list(old)


def gen_case(rng):
    if rng.random() < 0.2:
        # reindex_like
        sp = gen.spec(rng, mindim=1, maxdim=3, dtype=rng.choice('fi'), narrow=True)
        tdims = []
        tlabs, tk = [], []
        for d, l, k in zip(sp["dims"], sp["labels"], sp["kinds"]):
            if rng.random() < 0.6:
                tdims.append(d)
                tlabs.append(new_labels(rng, l, k, rng.choice(['subset', 'superset', 'perm', 'self', 'disjoint'])))
                tk.append(k)
        extra = [d for d in gen.DIMS if d not in sp["dims"]]
        if rng.random() < 0.5:
            tdims.append(extra[0])
            tlabs.append(gen.labels(rng, 2, 'i'))
            tk.append('i')
        order = list(range(len(tdims)))
        rng.shuffle(order)
        t = {"dims": [tdims[i] for i in order], "labels": [tlabs[i] for i in order], "kinds": [tk[i] for i in order]}
        t["values"] = np.zeros(tuple(len(l) for l in t["labels"]))
        return {"mode": "like", "a": sp, "template": t, "as_axes": rng.random() < 0.3}
    sp = gen.spec(rng, mindim=1, maxdim=4, dtype=rng.choice('ffi'), narrow=True)
    k = rng.randrange(len(sp["dims"]))
    kind = sp["kinds"][k]
    method = rng.choice([None, None, None, 'left', 'right']) if kind in 'if' else None
    mode = rng.choice(MODES)
    new = new_labels(rng, sp["labels"][k], kind, mode)
    lt = (sp.get("ldtypes") or [None] * len(sp["dims"]))[k]
    if lt in ('int8', 'int16', 'uint8', 'uint16') and mode in ('superset', 'disjoint') and rng.random() < 0.6:
        # a requested integer label that the (narrow) dtype of the existing labels cannot hold
        new = list(new)
        new.insert(rng.randint(0, len(new)), rng.choice([70000, 100000 + len(new)] + ([-70000, -40000] if lt.startswith('int') else [])))
    if lt == 'float32' and mode in ('superset', 'disjoint') and rng.random() < 0.6:
        # a requested label that float32 (the dtype of the existing labels) cannot represent
        new = list(new)
        new.insert(rng.randint(0, len(new)), rng.choice([0.1, 20200000.5, 1.0 / 3]))
    if method is not None:
        new = sorted(set([v + rng.choice([0, 0.5, -0.5, 3, -3, 0.25, 40]) for v in new] or [1.0]))
    c_ = {"mode": mode, "a": sp, "k": k, "new": new, "form": rng.choice(['list', 'arr', 'Axis']),
          "fill": rng.choice([float('nan'), float('nan'), -99, 0.5, 0, 0.0, False]), "raise_error": rng.random() < 0.25,
          "method": method, "axis_by_pos": rng.random() < 0.5, "axis_negative": rng.random() < 0.4}
    vv_ = np.asarray(sp["values"])
    if method is None and rng.random() < 0.15 and vv_.dtype.kind in 'if' and not np.isnan(np.asarray(vv_, dtype=float)).any():
        # narrow data and a fill value of the same kind that the narrow type cannot hold: "the fill value otherwise", not a wrapped /
        # rounded image of it
        if vv_.dtype.kind == 'i':
            sp["values"] = (vv_ % 100).astype(rng.choice(['int8', 'int16', 'uint8', 'int32']))
            c_["fill"] = rng.choice([np.int64(-99999), np.int64(3000000000), -99999])
        else:
            sp["values"] = (vv_ % 1000).astype('float32')
            c_["fill"] = rng.choice([0.1, np.float64(1e300), 1.0 / 3])
        c_["raise_error"] = False
    return c_


def check(case, ctx):
    da = __import__("vp.boot", fromlist=["boot"]).boot()
    sp = case["a"]
    m = model.from_spec(sp)
    a = common.build_under_option(sp, ctx.outcomes)
    import zlib
    common.set_tols(a, zlib.crc32(repr(sp["labels"]).encode()), ctx.outcomes)
    common.set_fillattrs(a, zlib.crc32(repr(sp["labels"]).encode()) + 1, ctx.outcomes)
    if case["mode"] == "like":
        tsp = case["template"]
        t = gen.build(tsp, meta=False)
        other = t.axes if case["as_axes"] else t
        label = "a.reindex_like(template) a: dims=%r labels=%s; template: dims=%r labels=%s" % (
            m.dims, codec.short(m.labels, 150), tuple(tsp["dims"]), codec.short(tsp["labels"], 150))
        res, exc = ctx.call(label, lambda: a.reindex_like(other), operands=(a, t), meta='carry', ambient=True)
        exp = m
        for d in m.dims:
            if d in tsp["dims"]:
                exp, _ = model.reindex(exp, tsp["labels"][tsp["dims"].index(d)], d)
        common.expect(ctx, ID, "like", label, res, exc, exp=exp)
        return ("like", m.ndim, len([d for d in m.dims if d in tsp["dims"]]), case["as_axes"])
    k, new, form, fill = case["k"], case["new"], case["form"], case["fill"]
    kind = sp["kinds"][k]
    d = m.dims[k]
    newkind = gen.kind_of(new) if new else kind
    arr = gen.np_labels(new, newkind)
    arg = new if form == 'list' else arr if form == 'arr' else da.Axis(arr, d)
    axis_arg = (k - m.ndim if case.get("axis_negative") else k) if case["axis_by_pos"] else d      # position, also counted from the end
    kw = {}
    if not (isinstance(fill, float) and fill != fill) or case["raise_error"]:
        kw = dict(fill_value=fill, raise_error=case["raise_error"])
    if case["method"]:
        kw["method"] = case["method"]
    label = "a.reindex_axis(%s as %s, axis=%r%s) on %s%s labels[%r]=%s" % (
        codec.short(new, 100), form, axis_arg, "".join(", %s=%r" % kv for kv in kw.items()), m.values.dtype, m.shape, d, codec.short(m.labels[k], 100))
    if form == 'Axis':
        fn = lambda: a.reindex_axis(arg, **kw)
    else:
        fn = lambda: a.reindex_axis(arg, axis=axis_arg, **kw)
    ops = (a, arg) if form != 'list' else (a,)
    res, exc = ctx.call(label, fn, operands=ops, meta='carry', ambient=True)
    klass = (kind, case["mode"], form, 'nan' if fill != fill else type(fill).__name__, m.values.dtype.kind, case["raise_error"],
             case["method"], m.ndim, k)
    old = m.labels[k]
    if case["method"] is None:
        exp, missing = model.reindex(m, new, k, fill)
        if missing and case["raise_error"]:
            if common.expect(ctx, ID, "raise_error", label, res, exc, exp_exc=IndexError):
                ctx.outcomes['raise-error-raised'] += 1
            return klass
        if missing:
            ctx.outcomes['filled'] += 1
        if common.expect(ctx, ID, "reindex", label, res, exc, exp=exp):
            # identity on the array's own labels keeps the dtype; promotion only when filling
            if not missing and res.values.dtype != m.values.dtype:
                ctx.v(ID, "dtype", "%s: dtype %s, expected %s (no label missing)" % (label, res.values.dtype, m.values.dtype))
            if missing and m.values.dtype.kind == 'i' and fill != fill and res.values.dtype.kind != 'f':
                ctx.v(ID, "dtype", "%s: dtype %s, expected float (NaN fill)" % (label, res.values.dtype))
            # axis attrs survive reindexing of that axis (C16), other axes untouched incl. attrs
        return klass
    # method left / right: numpy.searchsorted on the sorted labels
    srt = sorted(old)
    isort = sorted(range(len(old)), key=lambda i: old[i])
    pos = np.searchsorted(np.array(srt), np.array(new), side=case["method"]).clip(0, len(old) - 1)
    src = [isort[p] for p in pos]
    missing = any(not model.lab_eq(old[s], n) for s, n in zip(src, new))
    if missing and case["raise_error"]:
        common.expect(ctx, ID, "raise_error", label, res, exc, exp_exc=IndexError)
        return klass
    ev = np.take(m.values, src, axis=k)
    labs = [list(l) for l in m.labels]
    labs[k] = list(new)
    common.expect(ctx, ID, "method", label, res, exc, exp=model.MA(ev, m.dims, labs))
    return klass
