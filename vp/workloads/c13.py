"""C13 - a Dataset's variables always share the Dataset's axes.

History monitor: a generated history of Dataset mutations (including rejected assignments at
enumerated positions) is applied to the real Dataset and to a small model (ordered dict of label
lists + dict of (dims, values)); after every step the shared-axes invariant (identity of Axis
objects), the exact dimension set and the full observable state are compared."""
import copy
import itertools
import numpy as np
from .. import gen, model, codec, monitors
from . import common

ID = "C13"
LEVEL = "exploration"
RULE = ("random histories (1-25 steps) over: ds[k]=array (new/replacing; fewer/more/other dims), rejected ds[k]=array (labels of one existing "
        "dim perturbed / permuted / truncated; position of that dim and number of new dims before/after it enumerated in block 'reject'), "
        "del, rename via ds.axes[d].name / a variable's axis / ds.dims / set_axis(name=) / rename_axes, relabel via ds.axes[d][i] / a variable's "
        "axis / ds.<dim>= / set_axis(values) / ds.axes[d]=Axis, rename_keys, direct ds.axes.append; start from Dataset() or Dataset(a=..,b=..) "
        "with differing labels; axes re-assigned with the labels they already have. class = (step kinds seen as a set, start form, length bucket) plus per rejected step (position, new before, new after)")
ANCHORS = ["dataset.__setitem__", "dataset.__delitem__", "dataset._maybe_delete_axes", "dataset.set_axis", "dataset.rename_keys", "dataset.rename_axes"]
# entry points the workload calls itself; the other anchors are helpers behind them (counted as evidence only)
ANCHORS_REQUIRED = ["dataset.__setitem__", "dataset.__delitem__", "dataset.set_axis", "dataset.rename_keys", "dataset.rename_axes"]
FLOORS = {"quick": {"evaluations": 800, "distinct": 300, "outcome:steps": 6000, "outcome:rejected-steps": 600, "outcome:invariant-checks": 6000},
          "thorough": {"evaluations": 20000, "distinct": 2000}}
POOL = ['x', 'y', 'z', 'w']
OPS = ['set', 'set', 'set', 'replace', 'bad', 'bad', 'del', 'rename_axis', 'rename_axis_via_var', 'relabel', 'relabel_via_var', 'relabel_attr',
       'dims', 'dims_permute', 'set_axis_values', 'set_axis_name', 'set_axis_copy', 'axes_setitem', 'rename_keys', 'rename_axes', 'append_axis', 'relabel_same_array']


def shards(tier, seed, scale=1.0):
    out = [{"name": "reject-enum", "kind": "enum", "block": "reject", "exhaustive": True, "seed": seed, "tier": tier}]
    out += common.rand_shards(ID, tier, seed, scale, 1600, 50000)
    return out


class Sim(object):
    """names-and-labels simulation used by the generator only"""

    def __init__(self):
        self.axes = {}      # name -> (labels, kind), insertion ordered
        self.vars = {}      # key -> dims
        self.ctr = 0
        self.off = 0        # 20200000 for one history in five: labels whose spacing is tiny relative to their size
        self.offi = 0       # 2**63 for a few histories: integer labels that only an unsigned 64-bit axis holds exactly (ids, hashes)

    def fresh(self, prefix):
        self.ctr += 1
        return "%s%d" % (prefix, self.ctr)

    def used(self):
        u = set()
        for d in self.vars.values():
            u.update(d)
        return u

    def gc(self, names, direct):
        for n in names:
            if n in self.axes and n not in self.used():
                del self.axes[n]
                direct.discard(n)


def fresh_labels(rng, kind, n, sim):
    base = sim.ctr * 10 + (sim.off if kind in 'if' else 0) + (sim.offi if kind == 'i' else 0)
    sim.ctr += 1
    if kind == 'i':
        return gen.reorder(rng, [base + 3 * i for i in range(n)], rng.choice(['inc', 'dec', 'shuf']))
    if kind == 'f':
        return gen.reorder(rng, [base + 0.5 + i for i in range(n)], rng.choice(['inc', 'dec', 'shuf']))
    return gen.reorder(rng, ["%s%d" % (c, base) for c in 'abcdefghij'[:n]], rng.choice(['inc', 'dec', 'shuf']))


def make_array(rng, sim, dims, badpos=None, badmode=None):
    labs, kinds = [], []
    for i, d in enumerate(dims):
        if d in sim.axes:
            l, k = sim.axes[d]
            l = list(l)
            if badpos == i:
                if badmode == 'perturb' or len(l) < 2 and badmode == 'permute':
                    j = rng.randrange(len(l))
                    l[j] = l[j] + rng.choice([1000, 1]) if k != 's' else l[j] + 'X'
                elif badmode == 'permute':
                    l = l[1:] + l[:1]
                elif badmode == 'truncate':
                    l = l[:-1] if len(l) > 1 else l + [(l[0] + 1000 if k != 's' else 'extra')]
        else:
            k = rng.choice('ifs')
            l = fresh_labels(rng, k, rng.randint(1, 3), sim)
        labs.append(l)
        kinds.append(k)
    return {"dims": list(dims), "labels": labs, "kinds": kinds, "values": gen.values(rng, tuple(len(l) for l in labs), rng.choice('ffi')),
            # some of the arrays handed to the dataset have been used before (searched, reduced, relabelled in place)
            "history": rng.random() < 0.25, "forder": len(dims) >= 2 and rng.random() < 0.15}


def gen_history(rng, nsteps, forced_bad=None):
    sim = Sim()
    if rng.random() < 0.2:
        sim.off = gen.BIG
    elif rng.random() < 0.1:
        sim.offi = 2 ** 63
    direct = set()
    steps = []
    start = rng.choice(['empty', 'empty', 'ctor'])
    if start == 'ctor':
        # constructor with differing labels on a shared dim
        kind = rng.choice('ifs')
        d = rng.choice(POOL)
        pool = fresh_labels(rng, kind, 3, sim) + fresh_labels(rng, kind, 2, sim)
        arrays = {}
        # all inputs sorted in the same direction with >= 2 labels: the order of the union is then
        # determined (C06 direction rule), so that later steps can copy the dataset's labels
        cdir = rng.choice(['inc', 'dec'])
        for key in rng.sample(['a', 'b', 'c'], rng.randint(2, 3)):
            l = gen.reorder(rng, sorted(rng.sample(pool, rng.randint(2, 4))), cdir)
            extra = [x for x in POOL if x != d]
            dims = [d] + ([rng.choice(extra)] if rng.random() < 0.4 else [])
            rng.shuffle(dims)
            sp = {"dims": dims, "labels": [l if q == d else None for q in dims], "kinds": [kind if q == d else 'i' for q in dims]}
            for i, q in enumerate(dims):
                if q != d:
                    if q not in sim.axes:
                        sim.axes[q] = (fresh_labels(rng, 'i', 2, sim), 'i')
                    sp["labels"][i] = list(sim.axes[q][0])
            sp["values"] = gen.values(rng, tuple(len(x) for x in sp["labels"]), 'f')
            arrays[key] = sp
        steps.append({"op": "ctor", "arrays": arrays, "dim": d})
        # the simulation adopts the union in sorted order (the checker adopts the observed order)
        un = sorted(model.uniq_union(*[sp["labels"][sp["dims"].index(d)] for sp in arrays.values()]), reverse=(cdir == 'dec'))
        newaxes = {}
        for key in sorted(arrays):
            for q in arrays[key]["dims"]:
                if q not in newaxes:
                    newaxes[q] = (un, kind) if q == d else sim.axes[q]
            sim.vars[key] = list(arrays[key]["dims"])
        sim.axes = newaxes
        steps[-1]["adopt"] = True
    for s in range(nsteps):
        op = rng.choice(OPS) if forced_bad is None or s < nsteps - 1 else 'bad'
        dims_now = list(sim.axes)
        keys_now = list(sim.vars)
        if op in ('set', 'replace'):
            key = rng.choice(keys_now) if (op == 'replace' and keys_now) else rng.choice(['a', 'b', 'c', 'd', 'e'])
            nd = rng.randint(0, 3)
            dims = rng.sample(POOL + [d for d in dims_now if d not in POOL], min(nd, len(set(POOL + dims_now))))
            sp = make_array(rng, sim, dims)
            steps.append({"op": "set", "key": key, "array": sp, "as_list": False})
            old = sim.vars.get(key, [])
            for d, l, k in zip(sp["dims"], sp["labels"], sp["kinds"]):
                if d not in sim.axes:
                    sim.axes[d] = (l, k)
            sim.vars[key] = list(dims)
            sim.gc([d for d in old if d not in dims], direct)
            for d in dims:
                direct.discard(d)
        elif op == 'bad':
            cand = [d for d in dims_now if len(sim.axes[d][0]) > 0]
            if not cand:
                continue
            if forced_bad is not None and s == nsteps - 1:
                nb, na, mode = forced_bad
            else:
                nb, na, mode = rng.randint(0, 2), rng.randint(0, 2), rng.choice(['perturb', 'permute', 'truncate'])
            d = rng.choice(cand)
            newd = [sim.fresh('n') for _ in range(nb + na)]
            others = [q for q in dims_now if q != d and rng.random() < 0.3]
            dims = newd[:nb] + [d] + newd[nb:]
            for q in others:
                dims.insert(rng.randint(0, len(dims)), q)
            sp = make_array(rng, sim, dims, badpos=dims.index(d), badmode=mode)
            key = rng.choice(keys_now + ['a', 'f'])
            steps.append({"op": "bad", "key": key, "array": sp, "baddim": d, "new_before": sum(1 for q in dims[:dims.index(d)] if q in newd),
                          "new_after": sum(1 for q in dims[dims.index(d):] if q in newd), "mode": mode})
        elif op == 'del':
            if not keys_now:
                continue
            key = rng.choice(keys_now)
            steps.append({"op": "del", "key": key})
            old = sim.vars.pop(key)
            sim.gc(old, direct)
        elif op in ('rename_axis', 'rename_axis_via_var', 'set_axis_name', 'rename_axes'):
            if not dims_now:
                continue
            d = rng.choice(dims_now)
            if op == 'rename_axes' and d not in sim.used():
                continue
            via = None
            if op == 'rename_axis_via_var':
                ks = [k for k in keys_now if d in sim.vars[k]]
                if not ks:
                    continue
                via = rng.choice(ks)
            new = sim.fresh(d[0] + 'r')
            steps.append({"op": op, "dim": d, "new": new, "via": via, "callable": rng.random() < 0.3, "inplace": rng.random() < 0.8, "by_pos": rng.random() < 0.5})
            if op != 'rename_axes' or steps[-1]["inplace"]:
                sim.axes = {(new if q == d else q): v for q, v in sim.axes.items()}
                sim.vars = {k: [new if q == d else q for q in v] for k, v in sim.vars.items()}
                if d in direct:
                    direct.discard(d)
                    direct.add(new)
        elif op == 'relabel_same_array':
            # two equally long dimensions relabelled from one and the same ndarray (years, station numbers ...), then one label of the
            # first corrected in place: the second keeps its labels
            pairs = [(p, q) for p in dims_now for q in dims_now if p < q and len(sim.axes[p][0]) == len(sim.axes[q][0]) and sim.axes[p][0] and sim.axes[p][1] == sim.axes[q][1]]
            if not pairs:
                continue
            p_, q_ = rng.choice(pairs)
            k = sim.axes[p_][1]           # (labels of the kind both axes already have)
            newl = fresh_labels(rng, k, len(sim.axes[p_][0]), sim)
            steps.append({"op": op, "dims": [p_, q_], "labels": newl, "kind": k, "how": rng.choice(['set_axis', 'attr', 'axis_slice'])})
            sim.axes[p_] = (list(newl), k)
            sim.axes[q_] = (list(newl), k)
            i = rng.randrange(len(newl))
            newl2 = list(newl)
            newl2[i] = fresh_labels(rng, k, 1, sim)[0]
            steps.append({"op": 'relabel', "dim": p_, "i": i, "label": newl2[i], "via": None})
            sim.axes[p_] = (newl2, k)
        elif op in ('relabel', 'relabel_via_var', 'relabel_attr', 'set_axis_values', 'axes_setitem', 'set_axis_copy'):
            if not dims_now:
                continue
            d = rng.choice(dims_now)
            l, k = sim.axes[d]
            if not l or (op == 'set_axis_copy' and d not in sim.used()):
                continue
            via = None
            if op == 'relabel_via_var':
                ks = [q for q in keys_now if d in sim.vars[q]]
                if not ks:
                    continue
                via = rng.choice(ks)
            if op in ('relabel', 'relabel_via_var'):
                i = rng.randrange(len(l))
                newl = list(l)
                newl[i] = fresh_labels(rng, k, 1, sim)[0]
                if sim.offi and k == 'i' and rng.random() < 0.5:
                    newl[i] = sim.ctr * 10 + 7          # an ordinary (signed) integer among the huge unsigned ones: every label stays exact
                    sim.ctr += 1
                steps.append({"op": op, "dim": d, "i": i, "label": newl[i], "via": via})
            else:
                newl = fresh_labels(rng, k, len(l), sim)
                if rng.random() < 0.2 and not (k == 'i' and any(x > 2 ** 63 - 1 for x in l)):
                    # (not on the unsigned axes beyond 2**63 that also hold ordinary integers: handed over as a plain list, NumPy
                    # itself turns such a mixture into float64 before the library sees it)
                    newl = list(l)          # the axis re-assigned with the labels it already has (an update repeated, or made to attach metadata)
                st_ = {"op": op, "dim": d, "labels": newl, "kind": k, "form": rng.choice(['list', 'array', 'dict', 'callable']), "by_pos": rng.random() < 0.5}
                ks = [q for q in keys_now if d in sim.vars[q]]
                if op == 'relabel_attr' and ks and rng.random() < 0.5:
                    # the whole axis relabelled through one of the variables that has it
                    st_["via"] = rng.choice(ks)
                    st_["via_form"] = rng.choice(['attr', 'labels', 'set_axis', 'axis_slice'])
                steps.append(st_)
            if op != 'set_axis_copy':
                sim.axes[d] = (newl, k)
        elif op in ('dims', 'dims_permute'):
            if not dims_now:
                continue
            if op == 'dims_permute':
                # the new names overlap the old ones at other positions (swap / rotation / shift with one fresh name):
                # the final names are distinct, only the in-place renaming passes through duplicates
                new = list(dims_now)
                if len(new) >= 2:
                    r = rng.random()
                    if r < 0.4:
                        i, j = rng.sample(range(len(new)), 2)
                        new[i], new[j] = new[j], new[i]
                    elif r < 0.7:
                        new = new[1:] + new[:1]
                    else:
                        new = new[1:] + [sim.fresh('s')] if rng.random() < 0.5 else [sim.fresh('s')] + new[:-1]
                else:
                    new = [sim.fresh(d[0] + 'q') for d in dims_now]
            else:
                new = [sim.fresh(d[0] + 'q') for d in dims_now]
            steps.append({"op": "dims", "new": new})
            m = dict(zip(dims_now, new))
            sim.axes = {m[q]: v for q, v in sim.axes.items()}
            sim.vars = {k: [m[q] for q in v] for k, v in sim.vars.items()}
            direct = set(m[q] for q in direct)
        elif op == 'rename_keys':
            if not keys_now:
                continue
            key = rng.choice(keys_now)
            new = sim.fresh('k')
            if len(keys_now) > 1 and rng.random() < 0.25:
                # onto the key of another variable, which is thereby replaced (its dimensions may become unused)
                new = rng.choice([q for q in keys_now if q != key])
            inplace = rng.random() < 0.8
            steps.append({"op": "rename_keys", "key": key, "new": new, "callable": rng.random() < 0.3, "inplace": inplace})
            if inplace:
                replaced = sim.vars.get(new)
                sim.vars[new] = sim.vars.pop(key)
                if replaced is not None:
                    sim.gc(replaced, direct)
        elif op == 'append_axis':
            name = sim.fresh('p')
            k = rng.choice('if')
            l = fresh_labels(rng, k, rng.randint(1, 3), sim)
            steps.append({"op": "append_axis", "name": name, "labels": l, "kind": k})
            sim.axes[name] = (l, k)
            direct.add(name)
    return {"start": start, "steps": steps, "join_option": rng.random() < 0.3}


def cases(desc):
    if desc["kind"] == "enum":
        import random
        rng = random.Random("reject/%s" % desc.get("seed", 0))
        for nb in range(0, 3):
            for na in range(0, 3):
                for mode in ('perturb', 'permute', 'truncate'):
                    for rep in range(6 if desc.get("tier") != "thorough" else 60):
                        h = gen_history(rng, rng.randint(2, 6), forced_bad=(nb, na, mode))
                        h["block"] = "reject"
                        yield h
        return
    rng = common.rng_for(ID, desc)
    for i in range(desc["n"]):
        yield gen_history(rng, rng.randint(1, 25))


class DSModel(object):
    def __init__(self):
        self.axes = {}     # name -> labels (insertion order = expected ds.dims order is NOT asserted)
        self.vars = {}     # key -> model.MA
        self.direct = set()

    def used(self):
        u = set()
        for v in self.vars.values():
            u.update(v.dims)
        return u

    def gc(self, names):
        for n in names:
            if n in self.axes and n not in self.used():
                del self.axes[n]
                self.direct.discard(n)

    def rename_axis(self, d, new):
        self.axes = {(new if q == d else q): v for q, v in self.axes.items()}
        for v in self.vars.values():
            v.dims = tuple(new if q == d else q for q in v.dims)
        if d in self.direct:
            self.direct.discard(d)
            self.direct.add(new)

    def relabel(self, d, labels):
        self.axes[d] = list(labels)
        for v in self.vars.values():
            if d in v.dims:
                v.labels[v.dims.index(d)] = list(labels)


def observe_state(ctx, ds, mo, where):
    """compare the observable state of ds with the model; record violations"""
    ctx.outcomes['invariant-checks'] += 1
    probs = monitors.ds_problems(ds)
    for p in probs[:2]:
        ctx.v(ID, "invariant", "%s: %s" % (where, p))
    dims = list(ds.dims)
    if len(set(dims)) != len(dims):
        ctx.v(ID, "dup-dims", "%s: duplicate dims %r" % (where, dims))
    exp = set(mo.axes)
    if set(dims) != exp:
        used = mo.used()
        ctx.v(ID, "dims-set", "%s: ds.dims=%r, expected exactly %r (used by variables: %r, appended directly and unused: %r)" % (
            where, tuple(dims), tuple(mo.axes), sorted(used), sorted(mo.direct - used)))
        return False
    for d in dims:
        got = ds.axes[d].values.tolist()
        if not model.labels_eq(got, mo.axes[d]):
            ctx.v(ID, "ds-labels", "%s: labels of dataset axis %r are %r, expected %r" % (where, d, got, mo.axes[d]))
            return False
    if set(dict.keys(ds)) != set(mo.vars):
        ctx.v(ID, "keys", "%s: keys %r, expected %r" % (where, sorted(dict.keys(ds)), sorted(mo.vars)))
        return False
    for k, mv in mo.vars.items():
        v = dict.__getitem__(ds, k)
        g = model.observe(v)
        msg = model.compare(g, mv, "%s: variable %r" % (where, k))
        if msg:
            ctx.v(ID, "variable-state", msg)
            return False
    return True


def time_labels_probe(da, ctx, z):
    """a small Dataset over a datetime64 / timedelta64 dimension whose labels are changed through a dict or a callable - via the
    dataset, one of its variables or the Axis: only the addressed labels change, their type stays, every holder sees them"""
    unit = ['D', 'ns', 'h'][z % 3]
    if unit == 'h':
        lab = np.array([0, 6, 12], dtype='m8[h]')
        step = np.timedelta64(1, 'h')
    else:
        lab = np.array(['2000-01-01', '2000-01-02', '2000-01-03'], dtype='M8[%s]' % unit)
        step = np.timedelta64(1, 'D').astype('m8[%s]' % unit)
    ds = da.Dataset()
    ds['a'] = da.DimArray([1., 2., 3.], axes=[('time9', lab.copy())])
    ds['b'] = da.DimArray(np.arange(6.).reshape(3, 2), axes=[('time9', lab.copy()), ('y9', ['u', 'v'])])
    how = ['dict-ds', 'callable-ds', 'dict-var', 'callable-var', 'dict-axis', 'callable-axis'][(z // 3) % 6]
    i = (z // 18) % 3
    if how.startswith('dict'):
        exp = lab.copy()
        exp[i] = lab[i] + 40 * step
        mapper = {lab[i]: exp[i]}
    else:
        exp = lab + step
        mapper = lambda t: t + step
    if how.endswith('ds'):
        fn = lambda: ds.set_axis(mapper, axis='time9')
    elif how.endswith('var'):
        fn = lambda: dict.__getitem__(ds, 'b').set_axis(mapper, axis='time9', inplace=True)
    else:
        fn = lambda: ds.axes['time9'].set(mapper)
    label = "Dataset over %s labels %s: relabel through a %s (%s)" % (lab.dtype, lab.astype(str).tolist(), how.split('-')[0], how.split('-')[1])
    _, exc = ctx.call(label, fn, operands=(ds,), mutates=(ds,))
    ctx.outcomes['time-labelled-relabels'] += 1
    if exc is not None:
        ctx.v(ID, "time-labels-raised", "%s raised %s: %s" % (label, type(exc).__name__, str(exc)[:150]))
        return
    ax = ds.axes['time9']
    if ax.values.dtype != lab.dtype or not np.array_equal(ax.values, exp):
        ctx.v(ID, "time-labels", "%s: the axis now holds %r (%s), expected %s (%s)" % (label, ax.values.tolist()[:3], ax.values.dtype, exp.astype(str).tolist(), lab.dtype))
        return
    for k_ in ('a', 'b'):
        if dict.__getitem__(ds, k_).axes['time9'] is not ax:
            ctx.v(ID, "time-labels-sharing", "%s: variable %r no longer holds the dataset's axis" % (label, k_))


def check(case, ctx):
    da = __import__("vp.boot", fromlist=["boot"]).boot()
    steps = case["steps"]
    if len(steps) % 4 == 1:
        import zlib
        time_labels_probe(da, ctx, zlib.crc32(repr([st_["op"] for st_ in steps]).encode()) + len(steps))
    mo = DSModel()
    ds = None
    kinds_seen = set()
    rej_classes = []
    hist = []
    inserted = []       # (array passed to ds[k] = array, snapshot right after the insertion, step)
    for si, st in enumerate(steps):
        op = st["op"]
        kinds_seen.add(op)
        ctx.outcomes['steps'] += 1
        hist.append(op)
        where = "step %d (%s) of history %s" % (si, codec.short({k: v for k, v in st.items() if k not in ('array', 'arrays')}, 160), hist[-6:])
        if op == 'ctor':
            arrs = {k: gen.build(sp) for k, sp in st["arrays"].items()}
            if case.get("join_option"):
                # the statement says outer join, whatever the (documented but so far unused) option 'align.join' holds
                ctx.outcomes['ctor-under-align.join=inner'] += 1
                with common.options(**{'align.join': 'inner'}):
                    ds, exc = ctx.call("Dataset(**arrays) with option align.join='inner' " + where, lambda: da.Dataset(**arrs), operands=tuple(arrs.values()))
            else:
                ds, exc = ctx.call("Dataset(**arrays) " + where, lambda: da.Dataset(**arrs), operands=tuple(arrs.values()))
            if exc is not None:
                ctx.v(ID, "ctor-raised:" + type(exc).__name__, "Dataset(**arrays) with labels %s raised %s: %s" % (
                    codec.short({k: sp["labels"] for k, sp in st["arrays"].items()}, 200), type(exc).__name__, str(exc)[:150]))
                return ('ctor-raised',)
            # outer-join alignment: label set = union, every variable's cells at its own labels, NaN elsewhere
            d = st["dim"]
            un = model.uniq_union(*[sp["labels"][sp["dims"].index(d)] for sp in st["arrays"].values()])
            got = ds.axes[d].values.tolist() if d in ds.dims else None
            if got is None or len(got) != len(un) or not all(model.has_label(un, x) for x in got) or any(model.has_label(got[:j], x) for j, x in enumerate(got)):
                ctx.v(ID, "ctor-union", "Dataset(...) %s: axis %r has labels %r, expected the union %r" % (where, d, got, un))
                return ('ctor-bad',)
            for k, sp in st["arrays"].items():
                src = model.from_spec(sp)
                msg = model.check_cells_from_source(model.observe(dict.__getitem__(ds, k)), src, "Dataset(...) %s variable %r" % (where, k))
                if msg:
                    ctx.v(ID, "ctor-cells", msg)
                    return ('ctor-bad',)
            # adopt the observed order of the union
            for q in ds.dims:
                mo.axes[q] = ds.axes[q].values.tolist()
            for k in dict.keys(ds):
                mo.vars[k] = model.observe(dict.__getitem__(ds, k))
            observe_state(ctx, ds, mo, where)
            continue
        if ds is None:
            ds = da.Dataset()
        if op == 'set':
            arr = gen.build(st["array"])
            src = model.from_spec(st["array"])
            key = st["key"]
            def fn():
                ds[key] = arr
            _, exc = ctx.call("ds[%r] = array dims=%r %s" % (key, src.dims, where), fn, operands=(arr, ds), mutates=(ds,))
            if exc is not None:
                ctx.v(ID, "set-raised:" + type(exc).__name__, "ds[%r] = array(dims=%r labels=%s) raised %s: %s; %s" % (key, src.dims, codec.short(src.labels, 100), type(exc).__name__, str(exc)[:120], where))
                return ('set-raised',)
            inserted.append((arr, monitors.snapshot(arr), si))
            old = mo.vars.get(key)
            for d, l in zip(src.dims, src.labels):
                if d not in mo.axes:
                    mo.axes[d] = list(l)
                mo.direct.discard(d)
            mo.vars[key] = src
            if old is not None:
                mo.gc([d for d in old.dims if d not in src.dims])
        elif op == 'bad':
            arr = gen.build(st["array"])
            key = st["key"]
            before = monitors.snap_ds(ds)
            def fn():
                ds[key] = arr
            _, exc = ctx.call("rejected ds[%r] = array dims=%r %s" % (key, tuple(st["array"]["dims"]), where), fn, operands=(arr, ds), mutates=(ds,))
            ctx.outcomes['rejected-steps'] += 1
            rej_classes.append(('reject', st["array"]["dims"].index(st["baddim"]), st["new_before"], st["new_after"], st["mode"]))
            if exc is None:
                ctx.v(ID, "bad-accepted", "ds[%r] = array whose labels on %r are %r (dataset has %r) was accepted; %s" % (
                    key, st["baddim"], st["array"]["labels"][st["array"]["dims"].index(st["baddim"])], mo.axes.get(st["baddim"]), where))
                return ('bad-accepted',)
            if not isinstance(exc, ValueError):
                ctx.v(ID, "bad-wrong-exc", "rejected assignment raised %s(%s), expected ValueError; %s" % (type(exc).__name__, str(exc)[:100], where))
            after = monitors.snap_ds(ds)
            if after != before:
                ctx.v(ID, "rejected-assignment-changed-dataset", "rejected ds[%r] = array(dims=%r) left the dataset changed: dims %r (expected %r); %s; %s" % (
                    key, tuple(st["array"]["dims"]), tuple(ds.dims), tuple(mo.axes), monitors.describe_diff(before, after), where))
                return ('bad-leak',) 
        elif op == 'del':
            key = st["key"]
            def fn():
                del ds[key]
            _, exc = ctx.call("del ds[%r] %s" % (key, where), fn, operands=(ds,), mutates=(ds,))
            if exc is not None:
                ctx.v(ID, "del-raised", "del ds[%r] raised %s: %s; %s" % (key, type(exc).__name__, str(exc)[:100], where))
                return ('del-raised',)
            old = mo.vars.pop(key)
            mo.gc(list(old.dims))
        elif op in ('rename_axis', 'rename_axis_via_var', 'set_axis_name', 'rename_axes'):
            d, new = st["dim"], st["new"]
            copy_res = None
            if op == 'rename_axis':
                def fn():
                    ds.axes[d].name = new
            elif op == 'rename_axis_via_var':
                def fn():
                    dict.__getitem__(ds, st["via"]).axes[d].name = new
            elif op == 'set_axis_name':
                ax = list(ds.dims).index(d) if st["by_pos"] else d
                def fn():
                    ds.set_axis(name=new, axis=ax)
            else:
                mapper = (lambda q: new if q == d else q) if st["callable"] else {d: new}
                def fn():
                    return ds.rename_axes(mapper, inplace=st["inplace"])
            res, exc = ctx.call("%s %r -> %r %s" % (op, d, new, where), fn, operands=(ds,), mutates=(ds,) if (op != 'rename_axes' or st["inplace"]) else ())
            if exc is not None:
                ctx.v(ID, op + "-raised", "%s %r -> %r raised %s: %s; %s" % (op, d, new, type(exc).__name__, str(exc)[:100], where))
                return (op + '-raised',)
            if op == 'rename_axes' and not st["inplace"]:
                mo2 = copy.deepcopy(mo)
                mo2.rename_axis(d, new)
                mo2.direct = set()
                for q in list(mo2.axes):
                    if q not in mo2.used():
                        del mo2.axes[q]     # a copy only carries the axes its variables use
                if not common.is_ds(res):
                    ctx.v(ID, "rename_axes-copy", "rename_axes(inplace=False) returned %s; %s" % (type(res).__name__, where))
                else:
                    observe_state(ctx, res, mo2, "copy returned by " + where)
            else:
                mo.rename_axis(d, new)
        elif op == 'relabel_same_array':
            arr_ = gen.np_labels(st["labels"], st["kind"])
            ctx.outcomes['two-axes-relabelled-from-one-array'] += 1

            def fn():
                for d_ in st["dims"]:
                    if st["how"] == 'set_axis':
                        ds.set_axis(arr_, axis=d_)
                    elif st["how"] == 'attr':
                        setattr(ds, d_, arr_)
                    else:
                        ds.axes[d_][:] = arr_
            _, exc = ctx.call("%s %r <- one ndarray %s (%s) %s" % (op, st["dims"], codec.short(st["labels"], 60), st["how"], where), fn, operands=(ds,), mutates=(ds,))
            if exc is not None:
                ctx.v(ID, op + "-raised", "%s raised %s: %s; %s" % (op, type(exc).__name__, str(exc)[:100], where))
                return (op + '-raised',)
            for d_ in st["dims"]:
                mo.relabel(d_, list(st["labels"]))
        elif op in ('relabel', 'relabel_via_var'):
            d, i, lab = st["dim"], st["i"], st["label"]
            if op == 'relabel':
                def fn():
                    ds.axes[d][i] = lab
            else:
                def fn():
                    dict.__getitem__(ds, st["via"]).axes[d][i] = lab
            _, exc = ctx.call("%s %r[%d]=%r %s" % (op, d, i, lab, where), fn, operands=(ds,), mutates=(ds,))
            if exc is not None:
                ctx.v(ID, op + "-raised", "%s raised %s: %s; %s" % (op, type(exc).__name__, str(exc)[:100], where))
                return (op + '-raised',)
            newl = list(mo.axes[d])
            newl[i] = lab
            mo.relabel(d, newl)
        elif op in ('relabel_attr', 'set_axis_values', 'axes_setitem', 'set_axis_copy'):
            d, labs, k = st["dim"], st["labels"], st["kind"]
            arrl = gen.np_labels(labs, k)
            if op == 'relabel_attr' and st.get("via"):
                var_ = dict.__getitem__(ds, st["via"])
                vf = st["via_form"]
                newv = arrl if st["form"] == 'array' else list(labs)
                ctx.outcomes['relabel-whole-axis-via-variable'] += 1
                if vf == 'attr':
                    def fn():
                        setattr(var_, d, newv)
                elif vf == 'labels':
                    def fn():
                        var_.labels = tuple(newv if q == d else var_.axes[q].values for q in var_.dims)
                elif vf == 'set_axis':
                    def fn():
                        var_.set_axis(newv, axis=d)
                else:
                    def fn():
                        var_.axes[d][:] = newv
            elif op == 'relabel_attr':
                def fn():
                    setattr(ds, d, arrl if st["form"] == 'array' else list(labs))
            elif op == 'axes_setitem':
                item = da.Axis(arrl, d) if st["form"] in ('dict', 'callable') else (arrl if st["form"] == 'array' else list(labs))
                def fn():
                    ds.axes[d] = item
            else:
                old = mo.axes[d]
                if st["form"] == 'dict':
                    vals = dict(zip(old, labs))
                elif st["form"] == 'callable':
                    mp = dict(zip([str(x) for x in old], labs))
                    vals = lambda x: mp[str(x.item() if isinstance(x, np.generic) else x)]
                else:
                    vals = arrl if st["form"] == 'array' else list(labs)
                ax = list(ds.dims).index(d) if (st["by_pos"] and op != 'set_axis_copy') else d
                if op == 'set_axis_copy':
                    def fn():
                        return ds.set_axis(vals, axis=ax, inplace=False)
                elif ax == 0:
                    def fn():
                        ds.set_axis(vals)             # axis=0 is the default
                else:
                    def fn():
                        ds.set_axis(vals, axis=ax)
            res, exc = ctx.call("%s %r <- %s %s" % (op, d, codec.short(labs, 60), where), fn, operands=(ds,), mutates=(ds,) if op != 'set_axis_copy' else ())
            if exc is not None:
                ctx.v(ID, op + "-raised", "%s raised %s: %s; %s" % (op, type(exc).__name__, str(exc)[:100], where))
                return (op + '-raised',)
            if op == 'set_axis_copy':
                mo2 = copy.deepcopy(mo)
                mo2.relabel(d, labs)
                mo2.direct = set()
                for q in list(mo2.axes):
                    if q not in mo2.used():
                        del mo2.axes[q]
                if not common.is_ds(res):
                    ctx.v(ID, "set_axis-copy", "set_axis(inplace=False) returned %s; %s" % (type(res).__name__, where))
                elif d in mo2.axes:
                    observe_state(ctx, res, mo2, "copy returned by " + where)
            else:
                mo.relabel(d, labs)
        elif op == 'dims':
            new = st["new"]
            def fn():
                ds.dims = tuple(new)
            old = list(ds.dims)
            _, exc = ctx.call("ds.dims = %r %s" % (tuple(new), where), fn, operands=(ds,), mutates=(ds,))
            if exc is not None:
                ctx.v(ID, "dims-raised", "ds.dims = %r raised %s: %s; %s" % (tuple(new), type(exc).__name__, str(exc)[:100], where))
                return ('dims-raised',)
            if len(old) != len(new):
                ctx.v(ID, "dims-desync", "dataset had dims %r when the model expected %d; %s" % (old, len(new), where))
                return ('desync',)
            # the history was generated against the model's insertion order; map by the real order
            for o, n in zip(old, new):
                mo.rename_axis(o, "\0" + n)
            for n in new:
                mo.rename_axis("\0" + n, n)
        elif op == 'rename_keys':
            key, new = st["key"], st["new"]
            mapper = (lambda q: new if q == key else q) if st["callable"] else {key: new}
            res, exc = ctx.call("rename_keys %r -> %r %s" % (key, new, where), lambda: ds.rename_keys(mapper, inplace=st["inplace"]), operands=(ds,), mutates=(ds,) if st["inplace"] else ())
            if exc is not None:
                ctx.v(ID, "rename_keys-raised", "rename_keys raised %s: %s; %s" % (type(exc).__name__, str(exc)[:100], where))
                return ('rename_keys-raised',)
            if st["inplace"]:
                replaced = mo.vars.get(new)
                mo.vars[new] = mo.vars.pop(key)
                if replaced is not None:
                    ctx.outcomes['rename_keys-onto-existing-key'] += 1
                    mo.gc(list(replaced.dims))
            else:
                mo2 = copy.deepcopy(mo)
                mo2.vars[new] = mo2.vars.pop(key)
                mo2.direct = set()
                for q in list(mo2.axes):
                    if q not in mo2.used():
                        del mo2.axes[q]
                if common.is_ds(res):
                    observe_state(ctx, res, mo2, "copy returned by " + where)
                else:
                    ctx.v(ID, "rename_keys-copy", "rename_keys(inplace=False) returned %s; %s" % (type(res).__name__, where))
        elif op == 'append_axis':
            ax = da.Axis(gen.np_labels(st["labels"], st["kind"]), st["name"])
            def fn():
                ds.axes.append(ax)
            _, exc = ctx.call("ds.axes.append(Axis %r) %s" % (st["name"], where), fn, operands=(ds,), mutates=(ds,))
            if exc is not None:
                ctx.v(ID, "append-raised", "ds.axes.append raised %s: %s; %s" % (type(exc).__name__, str(exc)[:100], where))
                return ('append-raised',)
            mo.axes[st["name"]] = list(st["labels"])
            mo.direct.add(st["name"])
        for arr_, snap_, sj in inserted:
            monitors.COUNTS['imm_operand_checks'] += 1
            now_ = monitors.snapshot(arr_)
            if now_ != snap_:
                ctx.v('C15', 'inserted-array-changed-by-dataset-edit:' + op,
                      "the array passed to ds[k] = array at step %d was changed by a later in-place edit of the dataset (%s): %s" % (
                          sj, where, monitors.describe_diff(snap_, now_)))
                inserted = [x for x in inserted if x[0] is not arr_]
        if not observe_state(ctx, ds, mo, where):
            return ('diverged', op)
    # what the variables compute is labelled with the dataset's current axes (a variable is a shallow copy of the array that was
    # assigned: nothing bound to that array may survive in it)
    if ds is not None:
        for k_ in list(dict.keys(ds)):
            v_ = dict.__getitem__(ds, k_)
            if v_.ndim < 2 or not v_.size:
                continue
            try:
                r_ = v_.sum(axis=0)
            except Exception:
                continue
            ctx.outcomes['final-variable-reductions'] += 1
            want_ = [list(mo.axes[q]) for q in v_.dims[1:]]
            got_ = [ax.values.tolist() for ax in r_.axes]
            if tuple(r_.dims) != tuple(v_.dims[1:]) or not all(model.labels_eq(g, w) for g, w in zip(got_, want_)):
                ctx.v(ID, "variable-reduction-labels", "after history %s, ds[%r].sum(axis=0) has dims %r labels %s, the dataset's axes are %r %s" % (
                    hist[-6:], k_, r_.dims, codec.short(got_, 120), tuple(v_.dims[1:]), codec.short(want_, 120)))
                break
    # a rejected assignment of a plain ndarray / list (default dimension names x0, x1, ... and labels 0..n-1): the dataset stays as it was
    if case.get("join_option") is not None and len(steps) % 3 == 0 and ds is not None and not any(q in ('x0', 'x1', 'x2') for q in ds.dims) and 'zz9' not in dict.keys(ds):
        ok_arr = da.DimArray(np.arange(3.) + 500, axes=[da.Axis(np.array([10, 20, 30]), 'x1')])
        try:
            ds['zz9'] = ok_arr
            mo.axes['x1'] = [10, 20, 30]
            mo.vars['zz9'] = model.MA(np.arange(3.) + 500, ['x1'], [[10, 20, 30]])
        except Exception:
            ok_arr = None
        if ok_arr is not None:
            for vform, val in (("ndarray (2, 3)", np.zeros((2, 3))), ("nested list (2, 3)", [[1, 2, 3], [4, 5, 6]]), ("ndarray (4, 3, 2)", np.zeros((4, 3, 2)))):
                ctx.outcomes['rejected-plain-values'] += 1
                def fnp(val=val):
                    ds['plain9'] = val
                _, exc = ctx.call("ds['plain9'] = %s while the dataset's x1 has labels [10, 20, 30]" % vform, fnp, operands=(ds,), mutates=(ds,))
                if exc is None:
                    ctx.v(ID, "bad-accepted:plain", "ds['plain9'] = %s was accepted although its default labels on 'x1' ([0, 1, 2]) disagree with the dataset's [10, 20, 30]" % vform)
                    break
                if not observe_state(ctx, ds, mo, "after the rejected ds['plain9'] = %s" % vform):
                    break
    n = len(steps)
    out = [(case["start"], tuple(sorted(kinds_seen)), 'short' if n < 6 else 'mid' if n < 15 else 'long')]
    out += rej_classes
    return out
