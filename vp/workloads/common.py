"""helpers shared by the per-property workloads (no dimarray import at module level)"""
import random
import numpy as np
from .. import model, codec


def rand_shards(ID, tier, seed, scale, quick_n, thorough_n, nshards=16, **extra):
    total = int((quick_n if tier == "quick" else thorough_n) * scale)
    per = max(1, total // nshards)
    out = []
    for i in range(nshards):
        d = {"name": "rand-%d" % i, "kind": "rand", "seed": seed, "n": per, "tier": tier}
        d.update(extra)
        out.append(d)
    return out


def rng_for(ID, desc, salt=""):
    return random.Random("%s/%s/%s/%s" % (desc.get("seed", 0), ID, desc["name"], salt))


def is_da(x):
    from .. import monitors
    return isinstance(x, monitors.DimArray)


def is_ds(x):
    from .. import monitors
    return isinstance(x, monitors.Dataset)


def as_ma(res):
    """observed result -> model image (scalars become 0-d)"""
    if is_da(res):
        return model.observe(res)
    return model.MA(np.asarray(res), (), [])


def expect(ctx, prop, key, label, res, exc, exp=None, exp_exc=None, case=None, **cmp_kw):
    """judge one call.  exp: MA expected, or exp_exc: exception class (or tuple) expected.
    Records a violation on ctx; returns True if as expected."""
    if exp_exc is not None:
        if exc is None:
            ctx.v(prop, key + ":no-raise", "%s returned %s instead of raising %s" % (
                label, brief_res(res), _excname(exp_exc)))
            return False
        if not isinstance(exc, exp_exc):
            ctx.v(prop, key + ":wrong-exc:" + type(exc).__name__, "%s raised %s(%s), expected %s" % (
                label, type(exc).__name__, str(exc)[:200], _excname(exp_exc)))
            return False
        return True
    if exc is not None:
        ctx.v(prop, key + ":raised:" + type(exc).__name__, "%s raised %s: %s" % (label, type(exc).__name__, str(exc)[:300]))
        return False
    must_be_da = cmp_kw.pop("must_be_da", None)
    if must_be_da is None:
        must_be_da = exp.ndim > 0
    if must_be_da and not is_da(res):
        ctx.v(prop, key + ":not-dimarray", "%s returned %s (%s) instead of a DimArray with dims %r" % (
            label, type(res).__name__, brief_res(res), exp.dims))
        return False
    if exp.ndim == 0 and is_da(res) and res.ndim != 0:
        ctx.v(prop, key + ":not-scalar", "%s returned a %d-d DimArray, expected a scalar" % (label, res.ndim))
        return False
    got = as_ma(res)
    msg = model.compare(got, exp, what=label, **cmp_kw)
    if msg:
        ctx.v(prop, key + ":mismatch", msg)
        return False
    return True


def _excname(e):
    if isinstance(e, tuple):
        return "/".join(x.__name__ for x in e)
    return e.__name__


def brief_res(res):
    if is_da(res):
        try:
            return "DimArray(dims=%r, labels=%s, values=%s)" % (res.dims, codec.short([ax.values.tolist() for ax in res.axes], 120), model.brief(res.values, 12))
        except Exception:
            return "DimArray(?)"
    return codec.short(res, 120)


class options(object):
    """temporarily set dimarray rcParams"""

    def __init__(self, **kw):
        self.kw = {k.replace('_', '.', 1) if '.' not in k else k: v for k, v in kw.items()}

    def __enter__(self):
        from .. import boot
        self.da = boot.boot()
        self.old = {k: self.da.rcParams[k] for k in self.kw}
        self.da.rcParams.update(self.kw)

    def __exit__(self, *a):
        self.da.rcParams.update(self.old)


def set_tols(obj, seed, counter=None):
    """a look-up tolerance (`Axis.tol`, used by a[1.04]-style indexing) on about one numeric axis in five: operations that match labels
    exactly - reindexing, alignment, arithmetic, stack / concatenate - must not be affected by it"""
    import zlib
    n = 0
    for ax in obj.axes:
        v = getattr(ax, 'values', None)
        i = zlib.crc32(str(ax.name).encode())          # (by name: a Dataset and the free-standing twins of its variables get the same ones)
        if v is not None and getattr(v, 'dtype', None) is not None and v.dtype.kind in 'iuf' and type(ax).__name__ == 'Axis' and (seed + 3 * i) % 5 == 0:
            ax.tol = [0.3, 0.6, 1.5][(seed + i) % 3]
            n += 1
    if counter is not None and n:
        counter['axes-with-lookup-tolerance'] += n
    return obj


def set_fillattrs(a, seed, counter=None):
    """one operand in five declares a missing value in its metadata (as arrays read from netCDF files do): alignment, reindexing and
    arithmetic fill with NaN (or the fill value asked for) all the same"""
    from .. import monitors
    if seed % 5 == 0 and is_da(a):
        a.attrs.update(monitors.FILL_ATTRS)
        if counter is not None:
            counter['operands-declaring-a-missing-value'] += 1
    return a


def build_under_option(sp, counter=None, **kw):
    """gen.build(sp); one array in six is constructed while the session option `indexing.by` is 'position' (restored right after) and
    so remembers that mode for its own [] indexing.  Only for workloads whose operation is not [] / take indexing: reindexing,
    reductions, interpolation ... find labels the same way whatever that mode."""
    import zlib
    from .. import gen, boot
    da = boot.boot()
    if zlib.crc32(repr(sp["labels"]).encode()) % 6 != 0:
        return gen.build(sp, **kw)
    old = da.rcParams['indexing.by']
    da.rcParams['indexing.by'] = 'position'
    try:
        a = gen.build(sp, **kw)
    finally:
        da.rcParams['indexing.by'] = old
    if counter is not None:
        counter['arrays-built-under-position-indexing'] += 1
    return a


def array_args(*objs):
    """the ndarrays / DimArrays / Axis objects found in the arguments of a call (index arrays, masks, right-hand sides, label
    vectors): "any array passed to it" in C15's sense, to be listed among the operands that M-IMM watches"""
    out = []

    def walk(o, depth=0):
        if isinstance(o, np.ndarray) or is_da(o) or type(o).__name__ in ('Axis', 'MultiAxis'):
            out.append(o)
        elif isinstance(o, (list, tuple)) and depth < 3:
            for q in o:
                walk(q, depth + 1)
        elif isinstance(o, dict) and depth < 3:
            for q in o.values():
                walk(q, depth + 1)
    for o in objs:
        walk(o)
    return tuple(out)
