"""C01 - label indexing returns exactly the data stored at those labels.

Reference-model monitor: every spelling of a read is recorded at the API boundary and judged
against model.take_positions applied to positions found by a linear first-match scan."""
import numpy as np
from .. import gen, model, codec
from . import common

ID = "C01"
LEVEL = "exploration"
RULE = ("random arrays of 0-4 dims x label kind {int,float,str} x order {inc,dec,shuffled}; per dimension an index kind "
        "{scalar,list,ndarray,mask,full,empty,repeated,absent,wrong-kind,near(tol)}; tuple forms incl. Ellipsis and short tuples; "
        "every spelling (a[], take tuple/dict/axis=, .loc, .sel, .ix, .iloc, .isel, .nloc, tol=) under both 'indexing.by' values. "
        "one mapping object held by the caller used for several look-ups (take, [], .loc). A class = (ndim, per-dim (kind,order,index kind), tuple form, option value, tol mode); trivial = 0-d array or all-full index")
ANCHORS = ["bases.loc", "indexing.locate_one", "indexing.locate_many", "bases._get_indices", "bases._getitem",
           "bases._getaxes_ortho", "indexing.orthogonal_indexer", "axes.__getitem__", "bases.__getitem__"]
# entry points the workload calls itself; the other anchors are helpers behind them (counted as evidence only)
ANCHORS_REQUIRED = ["bases.__getitem__"]
FLOORS = {"quick": {"evaluations": 400, "distinct": 150, "outcome:absent-raised": 20, "outcome:spellings-compared": 1500},
          "thorough": {"evaluations": 20000, "distinct": 1000}}
ASSUMPTIONS = ["labels are unique int/float/str (no None/NaN/datetime labels); broadcast=True fancy indexing is out of scope"]


def shards(tier, seed, scale=1.0):
    return common.rand_shards(ID, tier, seed, scale, 16000, 320000)


def cases(desc):
    rng = common.rng_for(ID, desc)
    for i in range(desc["n"]):
        yield gen_case(rng)


IDX_KINDS = ['scalar', 'list', 'arr', 'mask', 'full', 'empty', 'rep', 'absent', 'abslist', 'wrongkind', 'one']


def gen_index(rng, lab, kind, ik, tol):
    n = len(lab)
    if ik == 'scalar':
        v = lab[rng.randrange(n)]
        if kind != 's' and rng.random() < 0.3:
            v = gen.np_labels([v], kind)[0]        # a NumPy scalar, as returned by a.x[0] or a.argmin()
        return v
    if ik == 'one':
        return [lab[rng.randrange(n)]]
    if ik in ('list', 'arr', 'rep'):
        k = rng.randint(1, n) if ik != 'rep' else n + rng.randint(1, 2)
        sel = [lab[rng.randrange(n)] for _ in range(k)]
        if ik == 'arr':
            if kind == 's' and rng.random() < 0.5:
                return np.array(sel)          # '<U..' array of labels on an object axis
            return gen.np_labels(sel, kind)
        return sel
    if ik == 'mask':
        m = [rng.random() < 0.5 for _ in range(n)]
        return np.array(m, dtype=bool) if rng.random() < 0.7 else m
    if ik == 'empty':
        return [] if rng.random() < 0.5 else gen.np_labels([], kind)
    if ik == 'absent':
        return gen.absent_label(rng, lab, kind)
    if ik == 'abslist':
        sel = [lab[rng.randrange(n)] for _ in range(rng.randint(0, 2))]
        sel.insert(rng.randint(0, len(sel)), gen.absent_label(rng, lab, kind))
        return sel
    if ik == 'wrongkind':
        if kind == 's':
            return rng.choice([3, 2.5])
        if rng.random() < 0.4:
            return rng.choice(['a', 'q'])
        # other numeric kind: a float that may or may not equal an int label, or vice versa
        v = lab[rng.randrange(n)]
        if kind == 'i':
            return rng.choice([float(v), v + 0.5, [float(v)], [v + 0.5]])
        return rng.choice([int(v) if float(v).is_integer() else int(v) + 100, [int(v) + 100]])
    return slice(None)


def gen_case(rng):
    sp = gen.spec(rng, mindim=0, maxdim=4, minsize=1, maxsize=5, narrow=True)
    nd = len(sp["dims"])
    by = rng.choice(['label', 'label', 'position'])
    tolmode = rng.choice([None, None, None, 'tol', 'nloc'])
    huge = tolmode is None and gen.make_huge(sp, rng)
    big53 = set()
    if tolmode is not None and rng.random() < 0.2:
        # integer labels beyond 2**53 (nanosecond time stamps, ids): neighbours that a float64 cannot tell apart
        for d_ in range(nd):
            if sp["kinds"][d_] == 'i' and (sp.get("ldtypes") or [None] * nd)[d_] in (None, 'int64') and not any(abs(v) > 2 ** 40 for v in sp["labels"][d_]):
                sp["labels"][d_] = [int(v) + 2 ** 53 for v in sp["labels"][d_]]
                big53.add(d_)
    idx = []
    kinds = []
    for d in range(nd):
        if tolmode is not None and sp["kinds"][d] != 's':
            ik = rng.choice(['near', 'near', 'nearlist', 'scalar', 'full', 'mask'])
        else:
            ik = rng.choice(IDX_KINDS + ['scalar', 'list', 'full'])
            if huge and ik == 'wrongkind':
                ik = 'absent'       # (a float cannot represent these labels: "the same label as a float" is ill-defined)
        if ik in ('near', 'nearlist'):
            lab = sp["labels"][d]
            def near():
                base = lab[rng.randrange(len(lab))]
                if d in big53:
                    return base + rng.choice([0, 1, -1, 2, -2, 3])          # integer keys: exact whatever the magnitude
                return base + rng.choice([0, 0.25, -0.25, 0.5, -0.5, 1, -1, 1.5, 3, -3])
            ldt_ = (sp.get("ldtypes") or [None] * nd)[d]
            if ik == 'nearlist' and ldt_ and ldt_.startswith('uint') and d not in big53 and rng.random() < 0.6:
                # keys of the axis' own unsigned type (e.g. the labels of another array): differences must not wrap around
                hi_ = int(np.iinfo(ldt_).max)
                idx.append(np.array([min(hi_, max(0, int(lab[rng.randrange(len(lab))]) + rng.choice([0, 1, -1, 2, -2, 3]))) for _ in range(rng.randint(1, 3))], dtype=ldt_))
                kinds.append(ik)
                continue
            idx.append(near() if ik == 'near' else [near() for _ in range(rng.randint(0, 3))])      # an empty list selects nothing, also with a tolerance
        else:
            idx.append(gen_index(rng, sp["labels"][d], sp["kinds"][d], ik, None))
        kinds.append(ik)
    tol = None
    if tolmode == 'tol':
        tol = rng.choice([0.25, 0.5, 0.75, 1, 1.0, 2, 0.1])
    # tuple form
    form = rng.choice(['full', 'full', 'short', 'ellipsis'])
    return {"a": sp, "idx": idx, "ikinds": kinds, "by": by, "tolmode": tolmode, "tol": tol, "form": form, "flip": rng.random() < 0.25,
            "ellpos": rng.randint(0, nd) if nd else 0, "chain_by_pos": rng.random() < 0.5}


def is_full(ix):
    return isinstance(ix, slice) and ix == slice(None)


def model_positions(m, idx, tolmode, tol):
    """per-dim positions (int or list) or raises IndexError / TypeError as the statement says"""
    pos = []
    for d in range(m.ndim):
        ix = idx[d]
        lab = m.labels[d]
        numeric = model.is_numeric_labels(lab)
        t = None
        if numeric and tolmode == 'nloc':
            t = float('inf')
        elif numeric and tolmode == 'tol':
            t = tol
        if is_full(ix):
            pos.append(list(range(len(lab))))
        elif isinstance(ix, slice):
            pos.append(model.slice_positions(lab, ix.start, ix.stop, ix.step))
        elif isinstance(ix, np.ndarray) and ix.dtype.kind == 'b' or (isinstance(ix, list) and len(ix) and all(isinstance(b, bool) for b in ix)):
            pos.append([i for i, b in enumerate(list(ix)) if b])
        elif isinstance(ix, (list, np.ndarray)):
            vals = ix.tolist() if isinstance(ix, np.ndarray) else ix
            if t is not None:
                pos.append([model.locate_tol(lab, v, t) for v in vals])
            else:
                pos.append([model.locate(lab, v) for v in vals])
        else:
            if t is not None and isinstance(ix, (int, float)):
                pos.append(model.locate_tol(lab, ix, t))
            else:
                pos.append(model.locate(lab, ix))
    return pos


def tuple_form(idx, form, ellpos):
    """label tuple as the user would write it; returns (tuple, effective idx list)"""
    nd = len(idx)
    if form == 'short':
        # drop trailing full slices
        k = nd
        while k > 0 and is_full(idx[k - 1]):
            k -= 1
        return tuple(idx[:k])
    if form == 'ellipsis' and nd:
        # replace one maximal run of full slices containing ellpos (or insert an empty Ellipsis)
        e = min(ellpos, nd)
        lo = e
        while lo > 0 and is_full(idx[lo - 1]):
            lo -= 1
        hi = e
        while hi < nd and is_full(idx[hi]):
            hi += 1
        return tuple(idx[:lo]) + (Ellipsis,) + tuple(idx[hi:])
    return tuple(idx)


def check(case, ctx):
    da = common.options  # noqa
    sp = case["a"]
    m = model.from_spec(sp)
    nd = m.ndim
    idx = case["idx"]
    by = case["by"]
    tolmode, tol = case["tolmode"], case["tol"]
    with common.options(**{"indexing.by": by}):
        a = gen.build(sp)
        if case.get("flip"):
            # the option changes after the array was built: a[...] and .ix follow the mode the array captured,
            # .loc / .iloc / explicit indexing= keep their meaning
            da_ = __import__("vp.boot", fromlist=["boot"]).boot()
            da_.rcParams['indexing.by'] = 'position' if by == 'label' else 'label'
        # ---- model
        exp = exp_exc = None
        try:
            pos = model_positions(m, idx, tolmode, tol)
            exp = model.take_positions(m, pos)
        except IndexError:
            exp_exc = IndexError
            pos = None
        wrong = 'wrongkind' in case["ikinds"]
        t = tuple_form(idx, case["form"], case["ellpos"])
        kw = {}
        if tolmode == 'tol':
            kw["tol"] = tol
        nontriv = nd > 0 and not all(is_full(i) for i in idx)
        key = "read"
        jobs = []   # (label, thunk)
        single = t[0] if len(t) == 1 else t
        if tolmode == 'nloc':
            jobs.append(("a.nloc[t]", lambda: a.nloc[single]))
            jobs.append(("a.take(t, indexing='label', tol=inf)", lambda: a.take(t, indexing='label', tol=float('inf'))))
        else:
            if tolmode is None:
                if by == 'label':
                    jobs.append(("a[t]", lambda: a[single]))
                else:
                    jobs.append(("a.ix[t] (option=position)", lambda: a.ix[single]))
                jobs.append(("a.loc[t]", lambda: a.loc[single]))
                if nd:
                    jobs.append(("a.sel(**d)", lambda: a.sel(**{d: ix for d, ix in zip(m.dims, idx) if not is_full(ix)})))
            jobs.append(("a.take(t, indexing='label')", lambda: a.take(t, indexing='label', **kw)))
            if nd:
                jobs.append(("a.take({dim: idx}, indexing='label')", lambda: a.take({d: ix for d, ix in zip(m.dims, idx) if not is_full(ix)}, indexing='label', **kw)))
                # one mapping object held by the caller and used for several look-ups (and after a look-up that may have failed)
                held = {d: ix for d, ix in zip(m.dims, idx) if not is_full(ix)}
                jobs.append(("a.take(sel, indexing='label') with a mapping the caller keeps", lambda: a.take(held, indexing='label', **kw)))
                jobs.append(("a.take(sel, indexing='label') again with the same mapping object", lambda: a.take(held, indexing='label', **kw)))
                if by == 'label' and not kw:
                    jobs.append(("a[sel] with the same mapping object", lambda: a[held]))
                    jobs.append(("a.loc[sel] with the same mapping object", lambda: a.loc[held]))
                jobs.append(("a.take({pos: idx}, indexing='label')", lambda: a.take({i: ix for i, ix in enumerate(idx) if not is_full(ix)}, indexing='label', **kw)))
                # dimensions designated by their position counted from the end
                jobs.append(("a.take({negative pos: idx}, indexing='label')", lambda: a.take({i - nd: ix for i, ix in enumerate(idx) if not is_full(ix)}, indexing='label', **kw)))

            def chain():
                r = a
                for d, ix in zip(m.dims, idx):
                    if is_full(ix):
                        continue
                    ax = d if not case["chain_by_pos"] else r.dims.index(d)
                    if case["chain_by_pos"] and case["ellpos"] % 2 and ax != 0:
                        ax = ax - r.ndim        # the same dimension, counted from the end
                    if ax == 0 and case["chain_by_pos"]:
                        r = r.take(ix, indexing='label', **kw)       # axis=0 is the default
                    else:
                        r = r.take(ix, axis=ax, indexing='label', **kw)
                return r
            if nd and not (by == 'position' and False):
                jobs.append(("chained a.take(idx, axis=d)", chain))
        for label, fn in jobs:
            full_label = "%s with t=%s" % (label, codec.short(t, 200))
            res, exc = ctx.call(full_label, fn, operands=(a,) + common.array_args(t), meta='carry')
            ctx.outcomes['spellings-compared'] += 1
            if exp_exc is not None:
                if wrong and exc is not None and isinstance(exc, (TypeError, IndexError)):
                    # wrong-kind labels: NumPy cannot always compare kinds; any refusal is fine,
                    # silently returning data is not
                    ctx.relaxed['wrong-kind-refusal-type'] += 1
                    ok = True
                else:
                    ok = common.expect(ctx, ID, key, full_label, res, exc, exp_exc=IndexError)
                if ok:
                    ctx.outcomes['absent-raised'] += 1
            else:
                if wrong and exc is not None and isinstance(exc, TypeError):
                    ctx.relaxed['wrong-kind-typeerror'] += 1
                    continue
                common.expect(ctx, ID, key, full_label, res, exc, exp=exp)
        # ---- positional spellings (only when the label lookup is defined)
        if pos is not None and nd:
            def neg(p, n):
                # the same position counted from the end (NumPy semantics), deterministically from the case
                return p - n if (case["ellpos"] + p) % 3 == 0 else p
            pos = [neg(p, len(l)) if not isinstance(p, list) else [neg(q, len(l)) for q in p] for p, l in zip(pos, m.labels)]
            ppos = [p if not isinstance(p, list) else (np.array(p, dtype=int) if case["chain_by_pos"] else list(p)) for p in pos]
            # full dims back to full slices so that Ellipsis/short forms are exercised too
            pidx = [slice(None) if is_full(ix) else p for ix, p in zip(idx, ppos)]
            pt = tuple_form(pidx, case["form"], case["ellpos"])
            psingle = pt[0] if len(pt) == 1 else pt
            pj = [("a.iloc[p]", lambda: a.iloc[psingle]),
                  ("a.take(p, indexing='position')", lambda: a.take(pt, indexing='position')),
                  ("a.isel(**p)", lambda: a.isel(**{d: p for d, p in zip(m.dims, pidx) if not is_full(p)}))]
            if by == 'label':
                pj.append(("a.ix[p]", lambda: a.ix[psingle]))
            else:
                pj.append(("a[p] (option=position)", lambda: a[psingle]))
            for label, fn in pj:
                full_label = "%s with p=%s" % (label, codec.short(pt, 200))
                res, exc = ctx.call(full_label, fn, operands=(a,) + common.array_args(pt), meta='carry')
                ctx.outcomes['spellings-compared'] += 1
                common.expect(ctx, ID, "pos", full_label, res, exc, exp=exp)
    if not nontriv:
        return None
    return (nd, tuple(zip(sp["kinds"], [order_of(l) for l in sp["labels"]], case["ikinds"])), case["form"], by, bool(case.get("flip")), bool(sp.get("prime")), tolmode,
            'absent' if exp_exc else 'present')


def order_of(lab):
    if len(lab) < 2:
        return 'one'
    try:
        if all(lab[i] < lab[i + 1] for i in range(len(lab) - 1)):
            return 'inc'
        if all(lab[i] > lab[i + 1] for i in range(len(lab) - 1)):
            return 'dec'
    except TypeError:
        pass
    return 'shuf'
