"""C03 - assignment writes exactly the addressed cells.

Oracle: positions from the C01/C02 model; expected array = before-image with exactly those
cells set, cell by cell, to the broadcast right-hand side; dtype from the statement's widening
table (cast=True) or NumPy's own assignment semantics (cast=False)."""
import itertools
import numpy as np
from .. import gen, model, codec, monitors
from . import common, c01

ID = "C03"
LEVEL = "exploration"
RULE = ("random arrays (1-4 dims, dtype bool/int/float/object) x per-dim index kind {scalar,list,ndarray,mask,slice,full,empty} or a full N-d "
        "boolean mask x RHS {scalar,array,broadcastable array} of kind bool/int/float/str x cast x inplace x spelling "
        "{a[t]=v, put, put(axis=), put({dim:}), .loc, .ix, .iloc, put(indexing=position)}; block 'casttable' enumerates all 16 "
        "(array kind, RHS kind) pairs x scalar/array RHS x 3 index kinds completely. class = (array kind, rhs kind, rhs form, cast, inplace, "
        "spelling, index kinds); trivial = nothing. Also: the values setter (other arrays, and a view of the array's own buffer), labelled N-d masks listing the dimensions in another order")
ANCHORS = ["bases._setitem", "dimarraycls._setvalues_ortho", "dimarraycls._setvalues_bool", "indexing._maybe_cast_type", "bases.__setitem__"]
# entry points the workload calls itself; the other anchors are helpers behind them (counted as evidence only)
ANCHORS_REQUIRED = ["bases.__setitem__"]
FLOORS = {"quick": {"evaluations": 2000, "distinct": 500, "outcome:state-compared": 1500, "outcome:readback-compared": 1000},
          "thorough": {"evaluations": 50000, "distinct": 2000}}
SPELLINGS = ['setitem', 'put', 'put', 'put_axis', 'put_dict', 'loc', 'ix', 'iloc', 'put_pos', 'ndmask', 'posmode-setitem', 'posmode-put']
SCAL = {'b': True, 'i': 7, 'f': 2.5, 's': 'hello'}


def shards(tier, seed, scale=1.0):
    out = [{"name": "casttable", "kind": "enum", "block": "casttable", "exhaustive": True, "seed": seed}]
    out += common.rand_shards(ID, tier, seed, scale, 6000, 200000)
    return out


def cases(desc):
    if desc["kind"] == "enum":
        import random
        rng = random.Random("casttable/%s" % desc.get("seed", 0))
        for ak in 'bifO':
            for vk in 'bifs':
                for form in ('scalar', 'array'):
                    for ik in ('scalar', 'list', 'mask'):
                        for rep in range(3):
                            c = gen_case(rng, ak=ak, vk=vk, form=form, iks=[ik], cast=True, spelling='put')
                            c["block"] = "casttable"
                            yield c
        return
    rng = common.rng_for(ID, desc)
    for i in range(desc["n"]):
        if rng.random() < 0.08:
            # whole-array overwrite through the values setter, followed by an index assignment
            ak = rng.choice('fi')
            sp = gen.spec(rng, mindim=1, maxdim=3, minsize=1, maxsize=4, dtype=ak)
            yield {"block": "valset", "a": sp, "ak": ak, "rk": rng.choice(['same', 'same', 'float', 'int', 'list', 'ownview']), "seed": rng.randrange(10 ** 6)}
            continue
        yield gen_case(rng)


def gen_rhs(rng, vk, shape, form):
    if form == 'scalar':
        v = SCAL[vk]
        if vk == 'i':
            v = rng.choice([7, -3, np.int64(11)])
        if vk == 'f':
            v = rng.choice([2.5, -0.25, float('nan'), np.float64(6.5), np.float32(1.5), np.float16(0.5)])
        return v
    size = int(np.prod(shape)) if len(shape) else 1
    if vk == 'b':
        arr = np.array([rng.random() < 0.5 for _ in range(size)], dtype=bool)
    elif vk == 'i':
        arr = np.array(rng.sample(range(9000, 9900), size), dtype=np.int64)
    elif vk == 'f':
        arr = np.array(rng.sample(range(9000, 9900), size), dtype=float) + 0.5
        if rng.random() < 0.25:
            arr = arr.astype(np.float32)
    else:
        arr = np.empty(size, dtype=object)
        for k in range(size):
            arr[k] = "h%d" % k
        if rng.random() < 0.3:
            arr = arr.astype(str)
    return arr.reshape(shape)


def gen_case(rng, ak=None, vk=None, form=None, iks=None, cast=None, spelling=None):
    ak = ak or rng.choice('bifO')
    vk = vk or rng.choice('bifs')
    sp = gen.spec(rng, ndim=len(iks) if iks else None, mindim=1, maxdim=4, minsize=1, maxsize=4, dtype=ak)
    nd = len(sp["dims"])
    if ak == 'i' and rng.random() < 0.3:
        sp["values"] = sp["values"] + 2 ** 24 + 1          # integers a float32 cannot hold exactly
    spelling = spelling or rng.choice(SPELLINGS)
    idx, ikinds = [], []
    if spelling == 'ndmask':
        if nd >= 2 and rng.random() < 0.3:
            # equal-sized dimensions (a mask whose dimensions are listed in another order is shape-compatible)
            n_ = rng.randint(2, 3)
            sp = gen.spec(rng, ndim=nd, sizes=[n_] * nd, dtype=ak)
        mask = np.array([rng.random() < 0.4 for _ in range(sp["values"].size)], dtype=bool).reshape(sp["values"].shape)
        if nd < 2:
            spelling = 'put'
        else:
            k = int(mask.sum())
            f = form or rng.choice(['scalar', 'array'])
            rhs = gen_rhs(rng, vk, (k,), f)
            return {"a": sp, "ak": ak, "vk": vk, "form": f, "spelling": 'ndmask', "mask": mask, "mask_as_da": rng.random() < 0.5,
                    "rhs": rhs, "cast": rng.random() < 0.5 if cast is None else cast, "inplace": rng.random() < 0.6, "via": rng.choice(['setitem', 'put'])}
    single_dim = rng.randrange(nd) if spelling == 'put_axis' else None
    for d in range(nd):
        lab, kind = sp["labels"][d], sp["kinds"][d]
        if single_dim is not None and d != single_dim:
            ik = 'full'
        else:
            ik = iks[d] if iks else rng.choice(['scalar', 'list', 'arr', 'mask', 'slice', 'full', 'full', 'empty', 'one'])
        if ik in ('list', 'arr'):
            sel = rng.sample(lab, rng.randint(1, len(lab)))
            ix = sel if ik == 'list' else gen.np_labels(sel, kind)
        elif ik == 'slice':
            strict = kind == 's' or model.direction(lab) is None
            def bound():
                q = rng.random()
                if q < 0.3:
                    return None
                if strict or q < 0.7:
                    return lab[rng.randrange(len(lab))]
                return lab[rng.randrange(len(lab))] + rng.choice([-0.5, 0.5])
            ix = slice(bound(), bound(), rng.choice([None, None, 1, 2, -1]))
        else:
            ix = c01.gen_index(rng, lab, kind, ik, None)
        idx.append(ix)
        ikinds.append(ik)
    # selection shape through the model (needed to size the RHS)
    m = model.from_spec(sp)
    pos = c01.model_positions(m, idx, None, None)
    selshape = tuple(len(p) for p in pos if isinstance(p, list))
    form = form or rng.choice(['scalar', 'array', 'array', 'bcast'])
    if form == 'bcast' and len(selshape) >= 1:
        # an array that needs broadcasting: drop leading dims or set some to 1
        k = rng.randint(0, len(selshape) - 1)
        sh = list(selshape[k:])
        for j in range(len(sh)):
            if rng.random() < 0.3:
                sh[j] = 1
        rhs = gen_rhs(rng, vk, tuple(sh), 'array')
    elif form == 'scalar' or (form == 'bcast'):
        form = 'scalar'
        rhs = gen_rhs(rng, vk, (), 'scalar')
    else:
        rhs = gen_rhs(rng, vk, selshape, 'array')
    if spelling in ('setitem', 'loc', 'ix', 'iloc', 'posmode-setitem'):
        c, inp = False, True
    else:
        c = (rng.random() < 0.5) if cast is None else cast
        inp = rng.random() < 0.5
    if c and ak == 'i' and rng.random() < 0.3:
        # narrow integer data: with cast=True an assigned integer that does not fit widens the array instead of wrapping around
        sp["values"] = (sp["values"] % 100).astype(rng.choice(['int8', 'int16']))
    return {"a": sp, "ak": ak, "vk": vk, "form": form, "spelling": spelling, "idx": idx, "ikinds": ikinds, "rhs": rhs, "cast": c, "inplace": inp,
            "single_dim": single_dim, "axis_by_pos": rng.random() < 0.5, "negpos": rng.random() < 0.4}


def cast_dtype(adt, rhs):
    """the statement's widening rule as a table over kinds"""
    vk = np.asarray(rhs).dtype.kind
    ak = adt.kind
    if ak == vk or ak == 'O':
        r_ = np.asarray(rhs)
        if ak in 'iu' and r_.dtype.itemsize > adt.itemsize and not np.array_equal(r_.astype(adt), r_):
            return r_.dtype         # "widened as needed so that no assigned value is truncated": integers that do not fit
        return adt
    if ak == 'f' and vk in 'iu':
        return adt
    if ak in 'iu' and vk == 'f':
        return np.dtype(float)
    return np.dtype(object)


def assign_cells(ev, coords, rhs_b):
    """cell by cell; returns exception or None"""
    try:
        for c, v in zip(coords, rhs_b):
            ev[c] = v
    except Exception as e:
        return e
    return None


def py(x):
    return x.item() if isinstance(x, np.generic) else x


def same_py(a, b):
    a, b = py(a), py(b)
    if isinstance(a, float) and isinstance(b, float) and a != a and b != b:
        return True
    if isinstance(a, bool) != isinstance(b, bool):
        return False
    if isinstance(a, str) != isinstance(b, str):
        return False
    return a == b


def check_valset(case, ctx):
    import random
    rng = random.Random(case["seed"])
    sp = case["a"]
    a = gen.build(sp)
    v0 = np.array(sp["values"], copy=True)
    rk = case["rk"]
    ids = np.array(rng.sample(range(5000, 9000), max(1, v0.size))[:v0.size]).reshape(v0.shape)
    if rk == 'ownview':
        # a result fed back: the right-hand side is a view of the array's own buffer in another element order
        rhs = a.values[::-1] if v0.shape[0] > 1 or v0.ndim == 1 else a.values[:, ::-1]
    elif rk == 'same':
        rhs = ids.astype(v0.dtype)
    elif rk == 'float':
        rhs = ids + 0.5
    elif rk == 'int':
        rhs = ids.astype(np.int64)
    else:
        rhs = ids.astype(v0.dtype).tolist()
    exp = np.array(rhs, copy=True)
    if v0.dtype.kind == 'f':
        exp = exp.astype(float)
    before_axes = tuple(monitors.snap_axis(ax) for ax in a.axes)
    before_attrs = monitors.freeze(a.attrs)
    label = "a.values = %s %s on %s%r" % (rk, codec.short(rhs, 80), v0.dtype, v0.shape)

    def fn():
        a.values = rhs
    _, exc = ctx.call(label, fn, operands=(a,), mutates=(a,), meta=None)
    ctx.outcomes['values-setter'] += 1
    if exc is not None:
        ctx.v(ID, "valset:raised:" + type(exc).__name__, "%s raised %s: %s" % (label, type(exc).__name__, str(exc)[:150]))
        return ('valset', rk, 'raised')
    if a.values.shape != exp.shape or a.values.dtype.kind != exp.dtype.kind or not model.values_eq(a.values, exp):
        ctx.v(ID, "valset:mismatch", "%s: values now %s, expected %s" % (label, model.brief(a.values), model.brief(exp)))
        return ('valset', rk, 'mismatch')
    if tuple(monitors.snap_axis(ax) for ax in a.axes) != before_axes or monitors.freeze(a.attrs) != before_attrs:
        ctx.v(ID, "valset:axes-or-attrs", "%s changed the axes or the metadata" % label)
    if not isinstance(rhs, np.ndarray) or not exp.size or rk == 'ownview':
        return ('valset', rk, v0.dtype.kind, v0.ndim)
    # the array that was assigned from and `a` stay independent: an index assignment into `a` changes exactly that cell of `a`
    r0 = rhs.copy()
    pos = tuple(rng.randrange(n) for n in exp.shape)
    _, exc = ctx.call("a.ix[%r] = -1 after %s" % (pos, label), lambda: a.ix.__setitem__(pos if len(pos) > 1 else pos[0], -1), operands=(a,), mutates=(a,), meta=None)
    e2 = exp.copy()
    e2[pos] = -1
    if exc is not None:
        ctx.v(ID, "valset:follow-up-raised", "a.ix[%r] = -1 after %s raised %s: %s" % (pos, label, type(exc).__name__, str(exc)[:100]))
    else:
        if not model.values_eq(a.values, e2):
            ctx.v(ID, "valset:follow-up-cells", "a.ix[%r] = -1 after %s: values %s, expected %s" % (pos, label, model.brief(a.values), model.brief(e2)))
        if not model.values_eq(rhs, r0):
            ctx.v(ID, "valset:assigned-from-array-changed", "a.ix[%r] = -1 after %s also changed the array that was assigned from: %s (was %s)" % (
                pos, label, model.brief(rhs), model.brief(r0)))
    # ... and a later change of that array does not move `a`
    keep = np.array(a.values, copy=True)
    rhs[...] = -7
    if not model.values_eq(a.values, keep):
        ctx.v(ID, "valset:follows-source", "%s: a later in-place change of the assigned-from array shows in a: %s (was %s)" % (label, model.brief(a.values), model.brief(keep)))
    return ('valset', rk, v0.dtype.kind, v0.ndim)


def check(case, ctx):
    if case.get("block") == "valset":
        return check_valset(case, ctx)
    sp = case["a"]
    m = model.from_spec(sp)
    a = gen.build(sp)
    rhs = case["rhs"]
    cast, inplace, spelling = case["cast"], case["inplace"], case["spelling"]
    before_axes = tuple(monitors.snap_axis(ax) for ax in a.axes)
    before_attrs = monitors.freeze(a.attrs)
    ev = m.values.copy()
    if cast:
        ev = ev.astype(cast_dtype(ev.dtype, rhs))
    # ---- expected cells
    bexc = None
    mask_reordered = None
    if spelling == 'ndmask':
        mask = case["mask"]
        coords = [tuple(c) for c in np.argwhere(mask)]
        if case["mask_as_da"] and len(set(mask.shape)) == 1 and mask.ndim >= 2 and hasattr(a, '_constructor'):
            # a labelled mask that lists the array's dimensions in another order (e.g. computed from a transposed array).  The cells it
            # designates are, by the statement, the cells the same index reads: asked of the library itself on a twin whose values
            # number its cells
            mr_ = a._constructor(mask.copy(), [ax.copy() for ax in list(a.axes)[::-1]])
            tw_ = a._constructor(np.arange(mask.size, dtype=float).reshape(mask.shape), a.axes.copy())
            try:
                rd_ = tw_[mr_]
                cells_ = [int(x) for x in np.asarray(rd_.values if common.is_da(rd_) else rd_).ravel()]
                if len(cells_) == len(coords):
                    coords = [tuple(int(q) for q in np.unravel_index(c_, mask.shape)) for c_ in cells_]
                    mask_reordered = mr_
                    ctx.outcomes['ndmask-dimarray-dims-in-another-order'] += 1
            except Exception:
                pass
        try:
            rhs_b = list(np.broadcast_to(np.asarray(rhs, dtype=object if isinstance(rhs, str) else None), (len(coords),)).tolist()) if not np.isscalar(rhs) or True else None
            if isinstance(rhs, np.ndarray):
                rhs_b = list(rhs.ravel()) if rhs.shape == (len(coords),) else list(np.broadcast_to(rhs, (len(coords),)))
            else:
                rhs_b = [rhs] * len(coords)
        except ValueError as e:
            bexc = e
        pos = None
    else:
        idx = case["idx"]
        pos = c01.model_positions(m, idx, None, None)
        plists = [[p] if not isinstance(p, list) else p for p in pos]
        selshape = tuple(len(p) for p in pos if isinstance(p, list))
        coords = list(itertools.product(*plists))
        try:
            if isinstance(rhs, np.ndarray):
                rb = np.broadcast_to(rhs, selshape)
                rhs_b = list(rb.ravel()) if rb.size else []
            else:
                rhs_b = [rhs] * len(coords)
        except ValueError as e:
            bexc = e
    numpy_may_refuse_empty = False
    if bexc is None and not coords:
        # nothing selected: depending on the index form NumPy may or may not convert the RHS to the
        # array's dtype first (and refuse); the statement only says that nothing changes
        try:
            tmp = np.empty(np.shape(rhs) or (1,), dtype=ev.dtype)
            tmp[...] = rhs
        except Exception as e:
            numpy_may_refuse_empty = True
    if bexc is None:
        bexc = assign_cells(ev, coords, rhs_b)
    # ---- the call
    t = None
    pt_args = ()
    if spelling == 'ndmask':
        mk = case["mask"]
        mobj = mk
        if case["mask_as_da"]:
            mobj = a._constructor(mk.copy(), a.axes.copy()) if hasattr(a, '_constructor') else mk
            if mask_reordered is not None:
                mobj = mask_reordered
        if case["via"] == 'setitem' and inplace and not cast:
            label = "a[ndmask] = %s" % codec.short(rhs, 80)
            def fn():
                a[mobj] = rhs
        else:
            label = "a.put(ndmask, %s, cast=%r, inplace=%r)" % (codec.short(rhs, 80), cast, inplace)
            fn = lambda: a.put(mobj, rhs, cast=cast, inplace=inplace)
    else:
        idx = case["idx"]
        t = tuple(idx)
        single = t[0] if len(t) == 1 else t
        if case.get("negpos"):
            # the same positions counted from the end
            pos = [(p - len(l)) if not isinstance(p, list) else [q - len(l) for q in p] for p, l in zip(pos, m.labels)]
        pt = tuple(p if not isinstance(p, list) else (p if len(p) else np.array([], dtype=int)) for p in pos)
        psingle = pt[0] if len(pt) == 1 else pt
        pt_args = pt
        if spelling.startswith('posmode'):
            # an array that indexes by position because it was created while the option said so (the option is back to 'label')
            with common.options(**{'indexing.by': 'position'}):
                a = gen.build(sp)
            ctx.outcomes['instance-position-mode'] += 1
        if spelling == 'setitem':
            label = "a[t] = v"
            def fn():
                a[single] = rhs
        elif spelling == 'loc':
            label = "a.loc[t] = v"
            def fn():
                a.loc[single] = rhs
        elif spelling == 'ix':
            label = "a.ix[p] = v"
            def fn():
                a.ix[psingle] = rhs
        elif spelling == 'iloc':
            label = "a.iloc[p] = v"
            def fn():
                a.iloc[psingle] = rhs
        elif spelling == 'posmode-setitem':
            label = "a[p] = v (array created under indexing.by='position')"
            def fn():
                a[psingle] = rhs
        elif spelling == 'posmode-put':
            label = "a.put(p, v, cast=%r, inplace=%r) (array created under indexing.by='position')" % (cast, inplace)
            fn = lambda: a.put(pt, rhs, cast=cast, inplace=inplace)
        elif spelling == 'put_pos':
            label = "a.put(p, v, indexing='position', cast=%r, inplace=%r)" % (cast, inplace)
            fn = lambda: a.put(pt, rhs, indexing='position', cast=cast, inplace=inplace)
        elif spelling == 'put_axis':
            d = case["single_dim"]
            ax = d if case["axis_by_pos"] else m.dims[d]
            label = "a.put(idx, v, axis=%r, cast=%r, inplace=%r)" % (ax, cast, inplace)
            if ax == 0:
                fn = lambda: a.put(idx[d], rhs, cast=cast, inplace=inplace)
            else:
                fn = lambda: a.put(idx[d], rhs, axis=ax, cast=cast, inplace=inplace)
        elif spelling == 'put_dict':
            label = "a.put({dim: idx}, v, cast=%r, inplace=%r)" % (cast, inplace)
            fn = lambda: a.put({d: ix for d, ix in zip(m.dims, idx) if not c01.is_full(ix)}, rhs, cast=cast, inplace=inplace)
        else:
            label = "a.put(t, v, cast=%r, inplace=%r)" % (cast, inplace)
            fn = lambda: a.put(t, rhs, cast=cast, inplace=inplace)
        label += " with t=%s v=%s" % (codec.short(t, 160), codec.short(rhs, 100))
    label += " on %s%s array labels=%s" % (sp["values"].dtype, m.shape, codec.short(m.labels, 120))
    out, exc = ctx.call(label, fn, operands=(a,) + common.array_args(rhs, case.get("idx"), case.get("mask"), pt_args), mutates=(a,) if inplace else (), meta='carry' if not inplace else None)
    klass = (case["ak"], case["vk"], case["form"], cast, inplace, spelling, tuple(case.get("ikinds", ())), case.get("block"))
    if bexc is not None:
        # NumPy itself refuses the equivalent assignment: the same exception type is the expected outcome
        ctx.outcomes['numpy-refuses'] += 1
        if exc is None:
            # a library that widens first could legitimately succeed only when cast=True; with the statement's
            # table applied in the model, a NumPy refusal means the value cannot be stored
            ctx.v(ID, "no-raise", "%s returned normally although NumPy refuses the equivalent assignment (%s: %s)" % (label, type(bexc).__name__, str(bexc)[:120]))
        elif type(exc) is not type(bexc) and not isinstance(exc, (ValueError, TypeError)):
            ctx.v(ID, "wrong-exc", "%s raised %s(%s), NumPy raises %s" % (label, type(exc).__name__, str(exc)[:100], type(bexc).__name__))
        return klass
    if exc is not None and numpy_may_refuse_empty and isinstance(exc, (ValueError, TypeError)):
        ctx.relaxed['empty-selection-numpy-conversion-refusal'] += 1
        return klass
    if exc is not None:
        ctx.v(ID, "raised:" + type(exc).__name__, "%s raised %s: %s" % (label, type(exc).__name__, str(exc)[:200]))
        return klass
    tgt = a if inplace else out
    if not common.is_da(tgt):
        ctx.v(ID, "not-dimarray", "%s: target is %s" % (label, type(tgt).__name__))
        return klass
    ctx.outcomes['state-compared'] += 1
    if tgt.values.dtype != ev.dtype:
        ctx.v(ID, "dtype", "%s: dtype after assignment is %s, expected %s" % (label, tgt.values.dtype, ev.dtype))
    elif not model.values_eq(tgt.values, ev):
        ctx.v(ID, "cells", "%s: values after assignment %s, expected %s" % (label, model.brief(tgt.values), model.brief(ev)))
    if tuple(monitors.snap_axis(ax) for ax in tgt.axes) != before_axes:
        ctx.v(ID, "axes-touched", "%s: axes changed by the assignment: %r" % (label, [ax.values.tolist() for ax in tgt.axes]))
    if monitors.freeze(tgt.attrs) != before_attrs:
        ctx.v(ID, "attrs-touched", "%s: metadata changed by the assignment: %r" % (label, tgt.attrs))
    if not inplace:
        # "With inplace=False the original array is left unchanged"
        if a.values.dtype != m.values.dtype or not model.values_eq(a.values, m.values):
            ctx.v(ID, "original-modified", "%s with inplace=False changed the original: %s (was %s)" % (label, model.brief(a.values), model.brief(m.values)))
        elif tuple(monitors.snap_axis(ax) for ax in a.axes) != before_axes or monitors.freeze(a.attrs) != before_attrs:
            ctx.v(ID, "original-modified", "%s with inplace=False changed the original's axes or metadata" % label)
    # ---- read back through the same index
    if spelling != 'ndmask' and len(coords) == len(set(coords)):
        rb, rexc = ctx.call("read-back " + label, lambda: tgt.take(tuple(case["idx"]), indexing='label'), operands=(tgt,))
        if rexc is not None:
            ctx.v(ID, "readback-raised", "read-back after %s raised %s: %s" % (label, type(rexc).__name__, str(rexc)[:100]))
        else:
            ctx.outcomes['readback-compared'] += 1
            got = np.asarray(rb.values if common.is_da(rb) else rb, dtype=object).ravel().tolist()
            if cast:
                want = rhs_b
                if len(got) != len(want) or not all(same_py(g, w) for g, w in zip(got, want)):
                    ctx.v(ID, "readback-lossy", "%s: read-back %s differs from the assigned values %s (dtype %s)" % (
                        label, codec.short(got, 120), codec.short([py(w) for w in want], 120), tgt.values.dtype))
            else:
                want = [ev[c] for c in coords]
                if len(got) != len(want) or not all(model.lab_eq(py(g), py(w)) for g, w in zip(got, want)):
                    ctx.v(ID, "readback", "%s: read-back %s, expected %s" % (label, codec.short(got, 120), codec.short([py(w) for w in want], 120)))
    elif spelling == 'ndmask':
        # "changes exactly the cells that the same index would read": a[ndmask] reads the cells in row-major order
        mk2 = np.array(case["mask"], copy=True)
        if mask_reordered is not None:
            mk2 = a._constructor(mk2, [ax.copy() for ax in list(a.axes)[::-1]])
        rb, rexc = ctx.call("read-back a[ndmask] after " + label, lambda: tgt[mk2], operands=(tgt,))
        if rexc is not None:
            ctx.v(ID, "readback-raised", "read-back a[ndmask] after %s raised %s: %s" % (label, type(rexc).__name__, str(rexc)[:100]))
        else:
            ctx.outcomes['readback-compared'] += 1
            ctx.outcomes['ndmask-readback'] += 1
            got = np.asarray(rb.values if common.is_da(rb) else rb, dtype=object).ravel().tolist()
            want = [ev[c] for c in coords]
            if len(got) != len(want) or not all(model.lab_eq(py(g), py(w)) for g, w in zip(got, want)):
                ctx.v(ID, "readback", "%s: a[ndmask] reads %s, expected %s" % (label, codec.short(got, 120), codec.short([py(w) for w in want], 120)))
    return klass
