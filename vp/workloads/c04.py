"""C04 - arithmetic aligns operands by dimension name and by label.

Oracle: model.check_binop - for every result coordinate, looked up by label in both
operands, value == op(a or NaN, b or NaN); label sets are unions with each label once."""
import numpy as np
from .. import gen, model, codec
from . import common

ID = "C04"
LEVEL = "exploration"
RULE = ("pairs of 0-4-d arrays over a common pool of 5 dimension names, arbitrary dim overlap and order; per shared dimension an overlap "
        "pattern {equal,overlapping,nested,disjoint,permuted} x stored order per operand {inc,dec,shuffled} x label kind {int,float,str, "
        "int-vs-float}; six operators, both operand orders, int and float data; scalar operands (python int/float, np.int64, np.float64) "
        "in both orders and ndarray right operands. class = (dims pattern, per shared dim (kind, pattern, orders), op, data kinds) or "
        "(scalar type, op, side); trivial = none")
ANCHORS = ["operation.operation", "align.align", "axes.union", "align.align_dims", "dimarraycls._binary_op", "dimarraycls._rbinary_op", "bases.__add__", "bases.__truediv__"]
# entry points the workload calls itself; the other anchors are helpers behind them (counted as evidence only)
ANCHORS_REQUIRED = ["bases.__add__", "bases.__truediv__"]
FLOORS = {"quick": {"evaluations": 1500, "distinct": 500, "outcome:pairs-with-differing-shared-labels": 300, "outcome:cells-checked": 1500},
          "thorough": {"evaluations": 50000, "distinct": 3000}}
OPS = {"add": np.add, "sub": np.subtract, "mul": np.multiply, "truediv": np.true_divide, "floordiv": np.floor_divide, "pow": np.power}
PYOP = {"add": lambda x, y: x + y, "sub": lambda x, y: x - y, "mul": lambda x, y: x * y, "truediv": lambda x, y: x / y,
        "floordiv": lambda x, y: x // y, "pow": lambda x, y: x ** y}


def shards(tier, seed, scale=1.0):
    out = common.rand_shards(ID, tier, seed, scale, 4000, 150000)
    for d in out[:2]:
        # in these processes the very first operations run with the options switched off (then they are restored)
        d["options_off_first"] = True
    return out


def cases(desc):
    rng = common.rng_for(ID, desc)
    if desc.get("options_off_first"):
        da = __import__("vp.boot", fromlist=["boot"]).boot()
        x = da.DimArray([1., 2.], axes=[[1, 2]], dims=['x'])
        y = da.DimArray([1., 2.], axes=[[2, 3]], dims=['x'])
        for opt in ('op.reindex', 'op.broadcast'):
            da.rcParams[opt] = False            # written directly, as the documentation of the options shows
            try:
                x + y
                x + x.newaxis('k')
            except Exception:
                pass
            da.rcParams[opt] = True
    for i in range(desc["n"]):
        yield gen_case(rng)


def pair_labels(rng, kind, pattern, off=0):
    """two label lists for one shared dimension"""
    na = rng.randint(1, 4)
    nb = rng.randint(1, 4)
    k2 = kind
    if kind == 'if':
        kind, k2 = rng.choice([('i', 'f'), ('f', 'i')])
    pool = gen.labels(rng, 8, 'i' if 'i' in (kind, k2) and kind != k2 else kind, 'inc', off=off)
    if pattern in ('equal', 'permuted'):
        la = rng.sample(pool, na)
        lb = list(la)
    elif pattern == 'nested':
        la = rng.sample(pool, max(na, nb))
        lb = rng.sample(la, min(na, nb))
        if rng.random() < 0.5:
            la, lb = lb, la
    elif pattern == 'disjoint':
        s = rng.sample(pool, min(8, na + nb))
        la, lb = s[:max(1, len(s) - nb)], s[max(1, len(s) - nb):] or [pool[-1] + 1 if kind != 's' else 'zz']
        la = la[:na]
    else:
        la = rng.sample(pool, na)
        lb = rng.sample(pool, nb)
    oa, ob = rng.choice(['inc', 'dec', 'shuf']), rng.choice(['inc', 'dec', 'shuf'])
    la = gen.reorder(rng, sorted(la), oa)
    lb = gen.reorder(rng, sorted(lb), ob)
    if pattern == 'permuted' and len(lb) > 1:
        while lb == la:
            rng.shuffle(lb)
        ob = 'shuf'
    if kind != k2:
        conv = {'i': int, 'f': float}
        la = [conv[kind](x) for x in la]
        lb = [conv[k2](x) for x in lb]
        # the float side also carries fractional labels (so that a cast of the union to int would lose them)
        if kind == 'f':
            la = [x + 0.5 if rng.random() < 0.4 else x for x in la]
        else:
            lb = [x + 0.5 if rng.random() < 0.4 else x for x in lb]
    return (la, kind, oa), (lb, k2, ob)


def gen_pair(rng, small=False, dtypes=None):
    pool = gen.DIMS
    da_ = rng.sample(pool, rng.randint(0, 4))
    db_ = rng.sample(pool, rng.randint(0, 4))
    if rng.random() < 0.5 and da_:
        # force overlap
        shared = rng.sample(da_, rng.randint(1, len(da_)))
        rest = [d for d in db_ if d not in da_]
        db_ = shared + rest[:max(0, 4 - len(shared))]
        rng.shuffle(db_)
    off = gen.BIG if rng.random() < 0.15 else 0     # labels beyond 2**24, spacing tiny relative to their size
    sa = {"dims": da_, "labels": [None] * len(da_), "kinds": [None] * len(da_)}
    sb = {"dims": db_, "labels": [None] * len(db_), "kinds": [None] * len(db_)}
    pats = []
    for d in pool:
        ina, inb = d in da_, d in db_
        if ina and inb:
            kind = rng.choice(['i', 'f', 's', 'i', 'f', 'if'])
            pattern = rng.choice(['equal', 'overlap', 'nested', 'disjoint', 'permuted'])
            (la, ka, oa), (lb, kb, ob) = pair_labels(rng, kind, pattern, off=off)
            if ka == 'i' and kb == 'i' and not off and rng.random() < 0.12:
                # the first operand's labels stored in a narrow integer type, the second operand has a label beyond its range
                sa.setdefault("ldtypes", [None] * len(da_))[da_.index(d)] = 'int16'
                lb = list(lb) + [rng.choice([-40000, 40000])]
            sa["labels"][da_.index(d)], sa["kinds"][da_.index(d)] = la, ka
            sb["labels"][db_.index(d)], sb["kinds"][db_.index(d)] = lb, kb
            pats.append((kind, pattern, oa, ob))
        elif ina or inb:
            s = sa if ina else sb
            dd = da_ if ina else db_
            k = rng.choice('ifs')
            s["labels"][dd.index(d)] = gen.labels(rng, rng.randint(1, 4), k, rng.choice(['inc', 'dec', 'shuf']), off=off)
            s["kinds"][dd.index(d)] = k
    dta, dtb = dtypes or (rng.choice('fi'), rng.choice('fi'))
    hi = 10 if small else 4000
    sa["values"] = gen.values(rng, tuple(len(l) for l in sa["labels"]), dta, lo=1, hi=hi if not small else 10) if not small else \
        np.array([rng.randint(1, 9) for _ in range(int(np.prod([len(l) for l in sa["labels"]])) if sa["labels"] else 1)], dtype=float if dta == 'f' else np.int64).reshape(tuple(len(l) for l in sa["labels"]))
    sb["values"] = gen.values(rng, tuple(len(l) for l in sb["labels"]), dtb, lo=1, hi=hi) if not small else \
        np.array([rng.randint(1, 9) for _ in range(int(np.prod([len(l) for l in sb["labels"]])) if sb["labels"] else 1)], dtype=float if dtb == 'f' else np.int64).reshape(tuple(len(l) for l in sb["labels"]))
    sa["history"], sb["history"] = rng.random() < 0.15, rng.random() < 0.15
    return sa, sb, pats


def gen_case(rng):
    op = rng.choice(list(OPS))
    r = rng.random()
    if r < 0.7:
        sa, sb, pats = gen_pair(rng, small=(op == 'pow'))
        return {"mode": "pair", "a": sa, "b": sb, "op": op, "pats": pats}
    sp = gen.spec(rng, mindim=0, maxdim=4, dtype=rng.choice('fi'))
    if op == 'pow':
        sp["values"] = (np.abs(sp["values"]) % 7 + 1).astype(sp["values"].dtype)
    if r < 0.9:
        st = rng.choice(['int', 'float', 'np.int64', 'np.float64', 'np.float32', 'np.int32'])
        v = rng.choice([2, 3, 5])
        s = {'int': int(v), 'float': v + 0.5, 'np.int64': np.int64(v), 'np.float64': np.float64(v + 0.5),
             'np.float32': np.float32(v + 0.5), 'np.int32': np.int32(v)}[st]
        return {"mode": "scalar", "a": sp, "op": op, "scalar": s, "stype": st, "side": rng.choice(['right', 'left'])}
    # plain ndarray right operand (same shape, or broadcastable trailing shape)
    shp = sp["values"].shape
    k = rng.randint(0, len(shp)) if len(shp) else 0
    sh = shp[k:]
    if op == 'pow':
        arr = np.array([rng.randint(1, 4) for _ in range(int(np.prod(sh)) if len(sh) else 1)], dtype=rng.choice([float, np.int64])).reshape(sh)
    else:
        arr = gen.values(rng, sh, rng.choice('fi'), lo=1, hi=500)
    return {"mode": "ndarray", "a": sp, "op": op, "arr": arr}


def check(case, ctx):
    da = __import__("vp.boot", fromlist=["boot"]).boot()
    op = case["op"]
    uf, pyop = OPS[op], PYOP[op]
    assert da.rcParams['op.reindex'] is True and da.rcParams['op.broadcast'] is True
    if case["mode"] == "pair":
        ma, mb = model.from_spec(case["a"]), model.from_spec(case["b"])
        a, b = gen.build(case["a"]), gen.build(case["b"])
        import zlib
        sa_, sb_ = zlib.crc32(repr(case["a"]["labels"]).encode()), zlib.crc32(repr(case["b"]["labels"]).encode())
        common.set_fillattrs(a, sa_, ctx.outcomes), common.set_fillattrs(b, sb_ + 1, ctx.outcomes)
        common.set_tols(a, sa_ + 2, ctx.outcomes), common.set_tols(b, sb_ + 3, ctx.outcomes)
        if case["a"].get("history") and case["b"].get("history"):
            # the options have been switched off and on again (written directly into rcParams, as the documentation shows):
            # the defaults are in force again
            for opt in ('op.reindex', 'op.broadcast'):
                da.rcParams[opt] = False
                try:
                    a + a
                except Exception:
                    pass
                da.rcParams[opt] = True
            ctx.outcomes['options-toggled-before'] += 1
        for label, fn, x, y in (("a %s b" % op, lambda: pyop(a, b), ma, mb), ("b %s a" % op, lambda: pyop(b, a), mb, ma)):
            label = "%s with a: dims=%r labels=%s; b: dims=%r labels=%s" % (label, ma.dims, codec.short(ma.labels, 160), mb.dims, codec.short(mb.labels, 160))
            res, exc = ctx.call(label, fn, operands=(a, b), meta='drop', ambient=True)
            if exc is not None:
                ctx.v(ID, "pair-raised:" + type(exc).__name__, "%s raised %s: %s" % (label, type(exc).__name__, str(exc)[:200]))
                continue
            if not common.is_da(res):
                if x.ndim == 0 and y.ndim == 0:
                    res_m = common.as_ma(res)
                else:
                    ctx.v(ID, "pair-not-dimarray", "%s returned %s" % (label, type(res).__name__))
                    continue
            else:
                res_m = model.observe(res)
            ctx.outcomes['cells-checked'] += 1
            msg = model.check_binop(res_m, x, y, uf, what=label)
            if msg:
                ctx.v(ID, "pair-mismatch", msg)
        shared = [d for d in ma.dims if d in mb.dims]
        if any(sorted(map(str, ma.labels[ma.dims.index(d)])) != sorted(map(str, mb.labels[mb.dims.index(d)])) for d in shared):
            ctx.outcomes['pairs-with-differing-shared-labels'] += 1
        return ("pair", len(ma.dims), len(mb.dims), len(shared), tuple(ma.dims) == tuple(d for d in mb.dims if d in ma.dims),
                tuple(sorted(case["pats"])), op, ma.values.dtype.kind + mb.values.dtype.kind)
    sp = case["a"]
    m = model.from_spec(sp)
    a = gen.build(sp)
    if case["mode"] == "scalar":
        s = case["scalar"]
        if case["side"] == 'right':
            label, fn = "a %s %s(%r)" % (op, case["stype"], s), lambda: pyop(a, s)
            with np.errstate(all='ignore'):
                ev = uf(m.values, s)
        else:
            label, fn = "%s(%r) %s a" % (case["stype"], s, op), lambda: pyop(s, a)
            with np.errstate(all='ignore'):
                ev = uf(s, m.values)
        label += " with a: %s%s dims=%r" % (m.values.dtype, m.shape, m.dims)
        res, exc = ctx.call(label, fn, operands=(a,), meta='drop', ambient=True)
        exp = model.MA(ev, m.dims, m.labels)
        common.expect(ctx, ID, "scalar-" + case["side"], label, res, exc, exp=exp, must_be_da=True, dtype_kind=np.asarray(ev).dtype.kind)
        return ("scalar", case["stype"], op, case["side"], m.ndim, m.values.dtype.kind)
    arr = case["arr"]
    label = "a %s ndarray%s with a: %s%s" % (op, arr.shape, m.values.dtype, m.shape)
    res, exc = ctx.call(label, lambda: pyop(a, arr), operands=(a, arr), meta='drop', ambient=True)
    with np.errstate(all='ignore'):
        ev = uf(m.values, arr)
    common.expect(ctx, ID, "ndarray-right", label, res, exc, exp=model.MA(ev, m.dims, m.labels), must_be_da=True)
    return ("ndarray", op, m.ndim, arr.ndim)
