"""C20 - on-disk netCDF access is equivalent to in-memory access (differential monitor on the
stand-in netCDF4)."""
import os
import numpy as np
from .. import gen, model, codec, monitors
from . import common, nccommon as ncc, c01

ID = "C20"
LEVEL = "exploration"
RULE = ("files written from generated Datasets (as in C19); block 'read': for every variable, 6 index batches in label and position mode "
        "(scalars, lists - sorted-unique, and unsorted/repeated -, masks, label slices, dicts, tolerance, absent labels) through "
        "open_nc(f)[v][idx], .ix/.loc/.sel/.isel, read_nc(f, v, indices=, indexing=, tol=) vs the same index on the loaded array; block "
        "'write': random sequences of on-disk assignments (label / position; scalar / array / DimArray RHS) interleaved with reads vs the "
        "same put sequence in memory; block 'unlimited': appends beyond the end of an unlimited dimension with labelled DimArrays; block "
        "'multi': read_nc([f1,f2(,f3)], axis=new|existing, keys, align, sort) vs stack_ds / concatenate_ds of the single reads. "
        "block 'crossvar': pieces read through the handle from one variable assigned through the handle to another one, where some variables "
        "were created with a fill value of their own, hold missing cells, and one variable's marker is an ordinary value in the others, vs the "
        "same reads and assignments on the loaded arrays. class = (block, variable kind, ndim, index kinds, spelling)")
ANCHORS = ["nc.read", "nc.write", "nc._getvalues_ortho", "nc._setvalues_ortho", "nc._getaxes_ortho", "nc.__getitem__", "nc._read_multinc"]
# entry points the workload calls itself; the other anchors are helpers behind them (counted as evidence only)
ANCHORS_REQUIRED = ["nc.__getitem__"]
FLOORS = {"quick": {"evaluations": 600, "distinct": 300, "outcome:ondisk-reads-compared": 2500, "outcome:ondisk-writes": 500,
                    "outcome:unlimited-appends": 100, "outcome:multifile-reads": 100, "outcome:ondisk-crossvar-assignments": 150},
          "thorough": {"evaluations": 12000, "distinct": 1500}}
ASSUMPTIONS = ["netCDF behaviour is that of the vendored stand-in (vp/standins/netCDF4); a violation is reported only if it reproduces "
               "under all 8 stand-in quirk combinations"]


def shards(tier, seed, scale=1.0):
    out = []
    for blk, q, t, n in (("read", 560, 8000, 7), ("write", 400, 5000, 4), ("unlimited", 120, 2000, 2), ("multi", 330, 3000, 3), ("crossvar", 160, 2500, 2)):
        o = common.rand_shards(ID, tier, seed, scale, q, t, nshards=n)
        for d in o:
            d["block"] = blk
            d["name"] = blk + "-" + d["name"]
        out += o
    return out


def cases(desc):
    rng = common.rng_for(ID, desc)
    for i in range(desc["n"]):
        blk = desc["block"]
        fmt = rng.choice(['NETCDF4', 'NETCDF4', 'NETCDF3_CLASSIC'])
        if blk in ('read', 'write'):
            dsp = ncc.gen_dataset(rng, fmt, nvars=rng.randint(1, 3))
            yield {"block": blk, "fmt": fmt, "ds": dsp, "seed": rng.randrange(10 ** 9)}
        elif blk == 'unlimited':
            yield {"block": blk, "fmt": fmt, "seed": rng.randrange(10 ** 9)}
        else:
            yield {"block": blk, "fmt": fmt, "seed": rng.randrange(10 ** 9)}


def res_desc(r):
    if isinstance(r, Exception):
        return ('EXC', type(r).__name__)
    return r


def same_result(g, e):
    """both DimArray / scalar: equal by dims, labels, values"""
    if isinstance(g, Exception) or isinstance(e, Exception):
        return isinstance(g, Exception) and isinstance(e, Exception) and (type(g) is type(e) or
                                                                           (isinstance(g, (IndexError, KeyError, TypeError, ValueError)) and isinstance(e, (IndexError, KeyError, TypeError, ValueError))))
    return model.compare(common.as_ma(g), common.as_ma(e), "x") is None


TIE_TOL = []


def gen_label_index(rng, arr, unsorted_ok):
    idx, kinds = [], []
    del TIE_TOL[:]
    for ax in arr.axes:
        lab = ax.values.tolist()
        n = len(lab)
        kind = gen.kind_of(lab)
        ik = rng.choice(['scalar', 'list', 'mask', 'full', 'slice', 'absent', 'near', 'unsorted', 'one', 'tie'])
        if ik == 'tie' and (kind == 's' or n < 2):
            ik = 'scalar'
        if ik == 'scalar':
            idx.append(lab[rng.randrange(n)])
        elif ik == 'one':
            idx.append([lab[rng.randrange(n)]])
        elif ik == 'list':
            ps = sorted(rng.sample(range(n), rng.randint(1, n)))
            idx.append([lab[p] for p in ps])
        elif ik == 'unsorted':
            idx.append([lab[rng.randrange(n)] for _ in range(rng.randint(1, 3))])
        elif ik == 'mask':
            idx.append(np.array([rng.random() < 0.6 for _ in range(n)], dtype=bool))
        elif ik == 'slice':
            i, j = rng.randrange(n), rng.randrange(n)
            idx.append(slice(lab[i], lab[j], rng.choice([None, None, 2])))
        elif ik == 'absent':
            idx.append(gen.absent_label(rng, lab, kind))
        elif ik == 'tie':
            # exactly half-way between two labels that follow each other on the axis: with a tolerance both are equally near
            p = rng.randrange(n - 1)
            idx.append((lab[p] + lab[p + 1]) / 2.0)
            TIE_TOL.append(abs(lab[p + 1] - lab[p]) / 2.0)
        elif ik == 'near' and kind != 's':
            idx.append(lab[rng.randrange(n)] + rng.choice([0.25, -0.25, 0.5]))
        else:
            idx.append(slice(None))
            ik = 'full'
        kinds.append(ik)
    return idx, kinds


def read_body(case, ctx, tmp):
    import random
    da = __import__("vp.boot", fromlist=["boot"]).boot()
    rng = random.Random(case["seed"])
    fn = os.path.join(tmp, "f.nc")
    ds = ncc.build_dataset(case["ds"])
    ds.write_nc(fn, format=case["fmt"])
    mem = da.read_nc(fn)
    classes = []
    f = da.open_nc(fn)
    try:
        for k in mem.keys():
            m = mem[k]
            vk = case["ds"]["vars"][k]["vkind"]
            if not common.is_da(m) or m.ndim == 0:
                g, exc = ctx.call("open_nc(f)[%r][()]" % k, lambda: f[k][()], operands=())
                ctx.outcomes['ondisk-reads-compared'] += 1
                if exc is not None or not same_result(g, m):
                    ctx.v(ID, "read:0-d", "open_nc(f)[%r][()] gave %r (%s), in memory %r" % (k, g, type(exc).__name__ if exc else None, m))
                g, exc = ctx.call("open_nc(f)[%r][:]" % k, lambda: f[k][:], operands=())
                if exc is not None or not same_result(g, m):
                    ctx.v(ID, "read:0-d-slice", "open_nc(f)[%r][:] gave %r (%s), in memory %r" % (k, g, type(exc).__name__ if exc else None, m))
                continue
            hk = f[k]
            for trial in range(6):
                idx, ikinds = gen_label_index(rng, m, True)
                tol = rng.choice([None, None, 0.3, 0.6]) if 'near' in ikinds else None
                if 'tie' in ikinds:
                    tol = max(TIE_TOL) * rng.choice([1.0, 1.5])
                    ctx.outcomes['ondisk-tolerance-ties'] += 1
                t = tuple(idx)
                single = t[0] if len(t) == 1 else t
                dct = {d: ix for d, ix in zip(m.dims, idx) if not c01.is_full(ix)}
                spell = rng.choice(['getitem', 'loc', 'sel', 'read', 'read_nc', 'read_nc-tuple', 'take-dict', 'read-axis', 'read_nc-axis'])
                if tol is not None:
                    spell = rng.choice(['read', 'read_nc', 'read_nc-tuple', 'nloc'])
                def expect():
                    if spell == 'nloc':
                        return m.nloc[single]
                    return m.take(t, indexing='label', tol=tol)
                # the variable's handle: taken now, or taken when the file was opened (it indexes the way it did then, whatever the
                # session option `indexing.by` says by the time it is used - like the array loaded at that time)
                early = spell in ('getitem', 'loc', 'sel', 'nloc') and rng.random() < 0.5
                hv = (lambda: hk) if early else (lambda: f[k])
                if spell == 'getitem':
                    fn_ = lambda: hv()[single]
                elif spell == 'loc':
                    fn_ = lambda: hv().loc[single]
                elif spell == 'sel':
                    fn_ = lambda: hv().sel(**dct)
                elif spell == 'read':
                    fn_ = lambda: f[k].read(indices=t, tol=tol)
                elif spell == 'take-dict':
                    fn_ = lambda: f[k].read(indices=dict(dct))
                elif spell == 'nloc':
                    fn_ = lambda: hv().nloc[single]
                elif spell in ('read-axis', 'read_nc-axis'):
                    q = rng.randrange(m.ndim)
                    t = tuple(ix if i == q else slice(None) for i, ix in enumerate(idx))
                    ax = rng.choice([q, m.dims[q]])
                    if spell == 'read-axis':
                        fn_ = (lambda: f[k].read(idx[q], axis=ax)) if ax != 0 else (lambda: f[k].read(idx[q]))
                    else:
                        # the index refers to the variable's own dimensions, wherever they sit among the file's dimensions
                        fn_ = (lambda: da.read_nc(fn, k, indices=idx[q], axis=ax)) if ax != 0 else (lambda: da.read_nc(fn, k, indices=idx[q]))
                elif spell == 'read_nc-tuple':
                    fn_ = lambda: da.read_nc(fn, k, indices=single, indexing='label', tol=tol)
                else:
                    fn_ = lambda: da.read_nc(fn, k, indices=dict(dct), indexing='label', tol=tol)
                label = "on-disk %s of %r with idx=%s tol=%r (labels %s)" % (spell, k, codec.short(t, 160), tol, codec.short([ax.values.tolist() for ax in m.axes], 120))
                try:
                    e = expect()
                except Exception as ex:
                    e = ex
                if early:
                    ctx.outcomes['ondisk-reads-through-early-handle'] += 1
                    label += " (handle taken when the file was opened)"
                g, exc = ctx.call(label, fn_, operands=(), ambient=early)
                g = exc if exc is not None else g
                ctx.outcomes['ondisk-reads-compared'] += 1
                if not same_result(g, e):
                    ctx.v(ID, "read:label:" + spell, "%s returned %s, the loaded array gives %s" % (label, common.brief_res(res_desc(g)) if not isinstance(g, Exception) else repr(g)[:150],
                                                                                                  common.brief_res(res_desc(e)) if not isinstance(e, Exception) else repr(e)[:150]))
                classes.append(('read', vk, m.ndim, tuple(ikinds), spell, tol is not None))
                # position mode
                pidx = tuple(rng.choice([rng.randrange(ax.size), -1, slice(None), slice(0, ax.size, 2), slice(1, None), sorted(rng.sample(range(ax.size), rng.randint(1, ax.size))),
                                         slice(None, None, -1), slice(None, None, -2), slice(ax.size - 1, 0, -2), slice(None, 0, -3), slice(-1, None, -2),      # strides running backwards
                                         np.array([rng.random() < 0.5 for _ in range(ax.size)], dtype=bool)]) for ax in m.axes)
                psingle = pidx[0] if len(pidx) == 1 else pidx
                pspell = rng.choice(['ix', 'iloc', 'isel', 'read-pos', 'read_nc-pos', 'read_nc-pos-tuple'])
                pd = {d: ix for d, ix in zip(m.dims, pidx) if not c01.is_full(ix)}
                if pspell == 'ix':
                    pf = lambda: f[k].ix[psingle]
                elif pspell == 'iloc':
                    pf = lambda: f[k].iloc[psingle]
                elif pspell == 'isel':
                    pf = lambda: f[k].isel(**pd)
                elif pspell == 'read-pos':
                    pf = lambda: f[k].read(indices=pidx, indexing='position')
                elif pspell == 'read_nc-pos-tuple':
                    pf = lambda: da.read_nc(fn, k, indices=psingle, indexing='position')
                else:
                    pf = lambda: da.read_nc(fn, k, indices=dict(pd), indexing='position')
                plabel = "on-disk %s of %r with p=%s (shape %r)" % (pspell, k, codec.short(pidx, 160), m.shape)
                try:
                    e = m.take(pidx, indexing='position')
                except Exception as ex:
                    e = ex
                g, exc = ctx.call(plabel, pf, operands=())
                g = exc if exc is not None else g
                ctx.outcomes['ondisk-reads-compared'] += 1
                if not same_result(g, e):
                    ctx.v(ID, "read:position:" + pspell, "%s returned %s, the loaded array gives %s" % (plabel, common.brief_res(res_desc(g)) if not isinstance(g, Exception) else repr(g)[:150],
                                                                                                      common.brief_res(res_desc(e)) if not isinstance(e, Exception) else repr(e)[:150]))
        # dataset-level read with indices on dataset axes
        if mem.dims:
            d = rng.choice(list(mem.dims))
            lab = mem.axes[d].values.tolist()
            ix = rng.choice([lab[rng.randrange(len(lab))], [lab[rng.randrange(len(lab))]], slice(None)])
            label = "read_nc(f, indices={%r: %s})" % (d, codec.short(ix, 60))
            g, exc = ctx.call(label, lambda: da.read_nc(fn, indices={d: ix}), operands=())
            try:
                e = mem.take(indices={d: ix})
            except Exception as ex:
                e = ex
            ctx.outcomes['ondisk-reads-compared'] += 1
            if exc is not None or isinstance(e, Exception):
                if (exc is None) != (not isinstance(e, Exception)):
                    ctx.v(ID, "read:dataset-exc", "%s: on-disk %r vs in-memory %r" % (label, exc, e))
            else:
                for k in mem.keys():
                    if not same_result(dict.__getitem__(g, k), dict.__getitem__(e, k)):
                        ctx.v(ID, "read:dataset", "%s: variable %r differs from Dataset.take on the loaded dataset" % (label, k))
    finally:
        f.close()
    return classes


def write_body(case, ctx, tmp):
    import random
    da = __import__("vp.boot", fromlist=["boot"]).boot()
    rng = random.Random(case["seed"])
    fn = os.path.join(tmp, "f.nc")
    ds = ncc.build_dataset(case["ds"])
    ds.write_nc(fn, format=case["fmt"])
    mem = da.read_nc(fn)
    classes = []
    f = da.open_nc(fn, mode='a')
    try:
        names = [k for k in mem.keys() if common.is_da(mem[k]) and mem[k].ndim > 0 and case["ds"]["vars"][k]["vkind"] != 's']
        for step in range(rng.randint(2, 7)):
            if not names:
                break
            k = rng.choice(names)
            m = mem[k]
            mode = rng.choice(['label', 'position'])
            idx, pos = [], []
            for ax in m.axes:
                lab = ax.values.tolist()
                n = len(lab)
                ik = rng.choice(['scalar', 'list', 'mask', 'full', 'slice'])
                if ik == 'scalar':
                    p = rng.randrange(n)
                    idx.append(lab[p] if mode == 'label' else p)
                elif ik == 'list':
                    ps = sorted(rng.sample(range(n), rng.randint(1, n)))
                    idx.append([lab[p] for p in ps] if mode == 'label' else ps)
                elif ik == 'mask':
                    idx.append(np.array([rng.random() < 0.6 for _ in range(n)], dtype=bool))
                elif ik == 'slice' and mode == 'position':
                    idx.append(slice(rng.randint(0, n - 1), None))
                else:
                    idx.append(slice(None))
            t = tuple(idx)
            single = t[0] if len(t) == 1 else t
            try:
                sel = m.take(t, indexing=mode)
            except Exception:
                continue
            shape = sel.shape if common.is_da(sel) else ()
            form = rng.choice(['scalar', 'array', 'dimarray'])
            base = float(rng.randint(50000, 60000))
            if form == 'scalar' or not shape:
                rhs = base
            else:
                rhs = (np.arange(int(np.prod(shape)), dtype=float).reshape(shape) + base)
                if form == 'dimarray' and common.is_da(sel):
                    if len(shape) >= 2 and len(set(shape)) == 1 and rng.random() < 0.5:
                        # a DimArray whose dimensions are listed in another order (equal sizes): assignment goes by position,
                        # on disk as in memory
                        rhs = da.DimArray(rhs, axes=[ax.copy() for ax in list(sel.axes)[::-1]])
                        ctx.outcomes['ondisk-writes-transposed-dimarray'] += 1
                    else:
                        rhs = da.DimArray(rhs, axes=[ax.copy() for ax in sel.axes])
            if m.values.dtype.kind == 'f' and rng.random() < 0.25:
                # integers beyond 2**31 assigned to a float variable (exact in float64, not representable in int32)
                big = 3000000000
                rhs = (da.DimArray((rhs.values + big).astype(np.int64), axes=[ax.copy() for ax in rhs.axes]) if common.is_da(rhs)
                       else (np.asarray(rhs) + big).astype(np.int64) if np.ndim(rhs) else int(rhs) + big)
                ctx.outcomes['ondisk-writes-big-int-into-float'] += 1
            if m.values.dtype.kind == 'i':
                rhs = (np.asarray(rhs.values if common.is_da(rhs) else rhs).astype(m.values.dtype)) if not common.is_da(rhs) else da.DimArray(rhs.values.astype(m.values.dtype), axes=[ax.copy() for ax in rhs.axes])
                if np.ndim(rhs) == 0 and not common.is_da(rhs):
                    rhs = int(rhs)
            rv_ = rhs.values if common.is_da(rhs) else rhs
            if isinstance(rv_, np.ndarray) and rv_.dtype.kind == 'f' and rv_.size and rng.random() < 0.3:
                rv_.flat[rng.randrange(rv_.size)] = np.nan          # missing data in what is assigned
                ctx.outcomes['ondisk-writes-with-nan'] += 1
            spell = rng.choice(['setitem', 'ix', 'write', 'loc']) if mode == 'label' else rng.choice(['ix', 'iloc', 'write-pos'])
            if spell == 'setitem':
                def fw():
                    f[k][single] = rhs
            elif spell == 'loc':
                def fw():
                    f[k].loc[single] = rhs
            elif spell == 'ix' and mode == 'position':
                def fw():
                    f[k].ix[single] = rhs
            elif spell == 'ix':
                spell = 'write'
                def fw():
                    f[k].write(t, rhs)
            elif spell == 'iloc':
                def fw():
                    f[k].iloc[single] = rhs
            elif spell == 'write':
                def fw():
                    f[k].write(t, rhs)
            else:
                def fw():
                    f[k].write(t, rhs, indexing='position')
            label = "on-disk %s %r[%s] = %s %s (labels %s)" % (spell, k, codec.short(t, 120), form, mode, codec.short([ax.values.tolist() for ax in m.axes], 100))
            _, exc = ctx.call(label, fw, operands=common.array_args(rhs))
            try:
                m.put(t, rhs.values if common.is_da(rhs) else rhs, indexing=mode)
                mexc = None
            except Exception as ex:
                mexc = ex
            ctx.outcomes['ondisk-writes'] += 1
            if (exc is None) != (mexc is None):
                ctx.v(ID, "write:exc-parity", "%s: on-disk %r vs in-memory put %r" % (label, exc, mexc))
                break
            # interleaved read
            g, rexc = ctx.call("read after " + label, lambda: f[k][:], operands=())
            if rexc is not None or not same_result(g, m):
                ctx.v(ID, "write:" + mode, "%s: file now holds %s, the same put in memory gives %s" % (label, common.brief_res(g) if rexc is None else repr(rexc), common.brief_res(m)))
                break
            classes.append(('write', m.values.dtype.kind, m.ndim, mode, form, spell))
    finally:
        f.close()
    final = da.read_nc(fn)
    for k in mem.keys():
        if not same_result(final[k], mem[k]):
            ctx.v(ID, "write:final", "after the on-disk assignment sequence the file's %r = %s differs from the in-memory result %s" % (k, common.brief_res(final[k]), common.brief_res(mem[k])))
    return classes


def unlimited_body(case, ctx, tmp):
    import random
    da = __import__("vp.boot", fromlist=["boot"]).boot()
    rng = random.Random(case["seed"])
    fn = os.path.join(tmp, "u.nc")
    fmt = case["fmt"]
    ik = rng.choice('if')
    items = gen.labels(rng, rng.randint(1, 3), rng.choice('ifs') if fmt == 'NETCDF4' else rng.choice('if'), rng.choice(['inc', 'shuf']))
    ikind = gen.kind_of(items)
    g = da.open_nc(fn, mode='w', format=fmt)
    tlabels = []
    rows = []
    try:
        g.axes.append('time')
        g.axes.append(da.Axis(gen.np_labels(items, ikind), 'item'))
        g.nc.createVariable('v', 'f8', ('time', 'item'))
        g.nc.createVariable('w', 'f8', ('time', 'item'))        # never written: its records exist only because 'v' grows (missing cells)
        pos = 0
        for step in range(rng.randint(1, 5)):
            k = rng.randint(1, 3)
            newl = [1000 * (step + 1) + 7 * j if ik == 'i' else 1000.5 * (step + 1) + j for j in range(k)]
            vals = np.array(rng.sample(range(1, 9000), k * len(items)), dtype=float).reshape(k, len(items))
            rhs = da.DimArray(vals, axes=[da.Axis(gen.np_labels(newl, ik), 'time'), da.Axis(gen.np_labels(items, ikind), 'item')])
            form = rng.choice(['slice', 'list', 'scalar']) if k == 1 else rng.choice(['slice', 'list'])
            if form == 'slice':
                idx = slice(pos, pos + k)
            elif form == 'list':
                idx = list(range(pos, pos + k))
            else:
                idx = pos
                rhs = da.DimArray(vals[0], axes=[da.Axis(gen.np_labels(items, ikind), 'item')]) if False else rhs
            label = "unlimited append v.ix[%r] = DimArray(time=%r) (file has %d rows)" % (idx, newl, pos)
            def fw():
                g['v'].ix[idx] = rhs
            _, exc = ctx.call(label, fw, operands=(rhs,))
            ctx.outcomes['unlimited-appends'] += 1
            if exc is not None:
                ctx.v(ID, "unlimited:raised:" + type(exc).__name__, "%s raised %s: %s" % (label, type(exc).__name__, str(exc)[:200]))
                return [('unlimited', 'raised')]
            tlabels += newl
            rows.append(vals)
            pos += k
            exp = model.MA(np.concatenate(rows, axis=0), ('time', 'item'), [tlabels, items])
            got, rexc = ctx.call("read after " + label, lambda: g['v'][:], operands=())
            if rexc is not None:
                ctx.v(ID, "unlimited:read-raised", "read after %s raised %s: %s" % (label, type(rexc).__name__, str(rexc)[:200]))
                return [('unlimited', 'raised')]
            msg = model.compare(common.as_ma(got), exp, "after " + label)
            if msg:
                ctx.v(ID, "unlimited:content", msg)
                return [('unlimited', 'mismatch')]
        # the cells of 'w' are missing data: every index form, all-scalar ones included, reads what the loaded array holds there
        wl, wexc = ctx.call("open_nc(f)['w'][:] (never written, %d records)" % pos, lambda: g['w'][:], operands=())
        if wexc is None and common.is_da(wl) and pos:
            for trial in range(4):
                i_, j_ = rng.randrange(pos), rng.randrange(len(items))
                for nm_, fr_, fm_ in (("ix[%d, %d]" % (i_, j_), lambda: g['w'].ix[i_, j_], lambda: wl.ix[i_, j_]),
                                      ("[%r, %r]" % (tlabels[i_], items[j_]), lambda: g['w'][tlabels[i_], items[j_]], lambda: wl[tlabels[i_], items[j_]]),
                                      ("ix[%d]" % i_, lambda: g['w'].ix[i_], lambda: wl.ix[i_]),
                                      ("read_nc(indices=all scalars)", lambda: da.read_nc(fn, 'w', indices={'time': tlabels[i_], 'item': items[j_]}) if False else g['w'].read(indices={'time': tlabels[i_], 'item': items[j_]}),
                                       lambda: wl.take({'time': tlabels[i_], 'item': items[j_]}))):
                    gv_, gexc_ = ctx.call("open_nc(f)['w'].%s on missing cells" % nm_, fr_, operands=())
                    ctx.outcomes['ondisk-reads-of-missing-cells'] += 1
                    try:
                        ev_ = fm_()
                    except Exception as ex_:
                        ev_ = ex_
                    ga_ = np.asarray(gv_.values if common.is_da(gv_) else gv_, dtype=float) if gexc_ is None else None
                    ea_ = np.asarray(ev_.values if common.is_da(ev_) else ev_, dtype=float) if not isinstance(ev_, Exception) else None
                    if (ga_ is None) != (ea_ is None) or (ga_ is not None and not (ga_.shape == ea_.shape and np.array_equal(ga_, ea_, equal_nan=True))):
                        ctx.v(ID, "unlimited:missing-cells", "open_nc(f)['w'].%s on a variable that was never written returned %r, the loaded array gives %r" % (
                            nm_, gexc_ if gexc_ is not None else ga_.tolist(), ev_ if ea_ is None else ea_.tolist()))
                        break
    finally:
        g.close()
    r = da.read_nc(fn)['v']
    exp = model.MA(np.concatenate(rows, axis=0), ('time', 'item'), [tlabels, items])
    msg = model.compare(common.as_ma(r), exp, "read_nc after unlimited appends")
    if msg:
        ctx.v(ID, "unlimited:final", msg)
    return [('unlimited', fmt, ik, ikind, len(rows))]


def multi_body(case, ctx, tmp):
    import random
    da = __import__("vp.boot", fromlist=["boot"]).boot()
    rng = random.Random(case["seed"])
    fmt = case["fmt"]
    nf = rng.randint(2, 3)
    mode = rng.choice(['stack', 'stack-align', 'concat', 'concat-keys', 'concat-align'])
    dims = rng.sample(gen.DIMS[:4], rng.randint(1, 2))
    axes = ncc.gen_axes(rng, dims, fmt, minsize=2)
    names = rng.sample(['a', 'b', 'c'], rng.randint(1, 2))
    cd = dims[0]
    first = ncc.gen_dataset(rng, fmt, dims=dims, axes=axes, names=names)
    # every variable has all dims (so that concatenation along cd is defined)
    for k in names:
        first["vars"][k] = ncc.gen_var(rng, axes, dims, fmt, vkind=rng.choice(['f', 'i']))
    specs = [first]
    for j in range(1, nf):
        ax2 = dict(axes)
        if mode.startswith('concat'):
            l, kk, at = axes[cd]
            new = []
            for _ in range(rng.randint(1, 3)):
                new.append(gen.absent_label(rng, l + new + sum([s["axes"][cd][0] for s in specs], []), kk))
            ax2[cd] = (new, kk, at)
        if mode in ('stack-align', 'concat-align') and (mode == 'stack-align' or len(dims) > 1):
            d2 = dims[-1]
            l, kk, at = axes[d2]
            l2 = [x for x in l if rng.random() < 0.7] + [gen.absent_label(rng, l, kk)]
            ax2[d2] = (gen.reorder(rng, sorted(l2), rng.choice(['inc', 'dec', 'shuf'])), kk, at)
        dsj = {"dims": list(dims), "axes": ax2, "vars": {}, "attrs": {}}
        for k in names:
            dsj["vars"][k] = ncc.gen_var(rng, ax2, dims, fmt, vkind=first["vars"][k]["vkind"])
            dsj["vars"][k]["attrs"] = {}
        specs.append(dsj)
    fns = []
    stems = rng.sample(['run_ctl', 'run_b', 'run_a', 'exp10', 'exp2', 'zz', 'A1'], len(specs))   # the given order is NOT the sorted order
    for j, s in enumerate(specs):
        p = os.path.join(tmp, "%s.nc" % stems[j])
        ncc.build_dataset(s).write_nc(p, format=fmt)
        fns.append(p)
    singles = [da.read_nc(p) for p in fns]
    ctx.outcomes['multifile-reads'] += 1
    var = rng.choice([None, names[0]])
    use_glob = rng.random() < 0.25
    if use_glob:
        # a glob pattern: the files are taken in sorted order
        order_ = sorted(range(nf), key=lambda j: fns[j])
        fns = [fns[j] for j in order_]
        singles = [singles[j] for j in order_]
        specs = [specs[j] for j in order_]
    if not use_glob and nf == 2 and mode != 'concat-keys' and rng.random() < 0.2:
        # one path listed twice (a climatology tiled over several years): every listed file is read and joined, in the order given
        j_ = rng.randrange(nf)
        fns.append(fns[j_]); singles.append(singles[j_]); specs.append(specs[j_])
        nf += 1
        ctx.outcomes['multifile-reads-with-a-repeated-path'] += 1
    farg = os.path.join(tmp, "*.nc") if use_glob else list(fns)
    if mode.startswith('stack'):
        keys = rng.choice([None, rng.sample(['p', 'q', 'r'], nf)])
        kw = {"align": True, "sort": rng.random() < 0.5} if mode == 'stack-align' else {}
        label = "read_nc(%d files, %r, axis='snew', keys=%r, %s)" % (nf, var, keys, kw)
        g, exc = ctx.call(label, lambda: da.read_nc(farg, var, axis='snew', keys=keys, **kw), operands=())
        ek = keys if keys is not None else [os.path.splitext(p)[0] for p in fns]
        try:
            e = da.stack_ds(singles, axis='snew', keys=ek, **kw)
        except Exception as ex:
            e = ex
    else:
        kw = {"align": True, "sort": rng.random() < 0.6} if (mode == 'concat-align' and len(dims) > 1) else {}
        keys = None
        if mode == 'concat-keys':
            alll = sum([s["axes"][cd][0] for s in specs], [])
            keys = rng.sample(alll, rng.randint(1, len(alll)))
        label = "read_nc(%d files, %r, axis=%r, keys=%s, %s)" % (nf, var, cd, codec.short(keys, 60), kw)
        g, exc = ctx.call(label, lambda: da.read_nc(farg, var, axis=cd, keys=keys, **kw), operands=())
        try:
            e = da.concatenate_ds(singles, axis=cd, **kw)
            if keys is not None:
                e = e.reindex_axis(keys, axis=cd)
        except Exception as ex:
            e = ex
    if exc is not None or isinstance(e, Exception):
        if (exc is None) != (not isinstance(e, Exception)):
            ctx.v(ID, "multi:exc-parity", "%s: multi-file read %r vs joining the single reads %r" % (label, exc, e))
        return [('multi', mode, 'exc')]
    if var is not None:
        if not common.is_da(g) or not same_result(g, e[var]):
            ctx.v(ID, "multi:variable", "%s: %s differs from joining the single reads: %s" % (label, common.brief_res(g), common.brief_res(e[var])))
    else:
        if not common.is_ds(g) or sorted(g.keys()) != sorted(e.keys()):
            ctx.v(ID, "multi:keys", "%s returned %r" % (label, g))
        else:
            for k in e.keys():
                if not same_result(g[k], e[k]):
                    ctx.v(ID, "multi:dataset", "%s: variable %r = %s differs from joining the single reads: %s" % (label, k, common.brief_res(g[k]), common.brief_res(e[k])))
    return [('multi', mode, nf, var is not None, keys is not None, fmt)]


def crossvar_body(case, ctx, tmp):
    """pieces read through the handle from one variable are assigned, through the handle, to another variable (or to another place of
    the same one); some variables were created with a fill value of their own and hold missing cells, and the marker value of one
    variable is an ordinary value in the others.  Reference: the same reads and assignments on the loaded arrays."""
    import random
    da = __import__("vp.boot", fromlist=["boot"]).boot()
    rng = random.Random(case["seed"])
    fn = os.path.join(tmp, "x.nc")
    fmt = case["fmt"]
    nd = rng.choice([1, 2, 2, 3])
    dims = rng.sample(gen.DIMS[:4], nd)
    labs = [gen.labels(rng, rng.randint(2, 4), rng.choice('if'), rng.choice(['inc', 'dec', 'shuf'])) for _ in dims]
    shape = tuple(len(l) for l in labs)
    markers = rng.sample([-1., -999., 0., 9999., 1e20], 2)
    pool = markers + [1.5, 2., -0.5, 7., 3.25]
    names = rng.sample(['anom', 'count', 'flux', 'prec'], rng.randint(2, 3))
    created = {}
    fills = {}
    f = da.open_nc(fn, mode='w', format=fmt)
    try:
        # the dimensions first, so that a variable's fill value is not handed to the coordinate variables it would otherwise create
        for d, l in zip(dims, labs):
            f.axes.append(da.Axis(gen.np_labels(l, gen.kind_of(l)), d))
        for j, k in enumerate(names):
            vals = np.array([rng.choice(pool) for _ in range(int(np.prod(shape)))], dtype=float).reshape(shape)
            if rng.random() < 0.5:
                vals.flat[rng.randrange(vals.size)] = np.nan
            arr = da.DimArray(vals, axes=[da.Axis(gen.np_labels(l, gen.kind_of(l)), d) for d, l in zip(dims, labs)])
            how = rng.choice(['plain', 'fill', 'fill']) if j else 'fill'
            if how == 'fill':
                fv = markers[j % 2]
                f.write(k, arr, fill_value=fv)
            else:
                f[k] = arr
            created[k] = how
            fills[k] = fv if how == 'fill' else None
    finally:
        f.close()
    mem = da.read_nc(fn)
    classes = []
    f = da.open_nc(fn, mode='a')
    try:
        n0 = shape[0]
        for step in range(rng.randint(2, 5)):
            src = rng.choice(names)
            dst = rng.choice([k for k in names if k != src] + ([src] if rng.random() < 0.2 else []))
            mode = rng.choice(['label', 'position'])
            if nd == 1 or rng.random() < 0.4:
                kk = rng.randint(1, n0)
                p1 = rng.sample(range(n0), kk)
                p2 = sorted(rng.sample(range(n0), kk))     # assignments through list indices: increasing positions, as in block 'write'
                i1 = [labs[0][p] for p in p1] if mode == 'label' else p1
                i2 = [labs[0][p] for p in p2] if mode == 'label' else p2
                ik = 'list'
            else:
                p1, p2 = rng.randrange(n0), rng.randrange(n0)
                i1 = labs[0][p1] if mode == 'label' else p1
                i2 = labs[0][p2] if mode == 'label' else p2
                ik = 'scalar'
            if mode == 'label':
                rd, rdm = (lambda: f[src][i1]), (lambda: mem[src][i1])
                def wr(v): f[dst][i2] = v
                def wrm(v): mem[dst][i2] = v
            else:
                rd, rdm = (lambda: f[src].ix[i1]), (lambda: mem[src].ix[i1])
                def wr(v): f[dst].ix[i2] = v
                def wrm(v): mem[dst].ix[i2] = v
            label = "open_nc(f)[%r]%s[%s] = open_nc(f)[%r]%s[%s] (%s; created %s; dim %r labels %s)" % (
                dst, '' if mode == 'label' else '.ix', codec.short(i2, 40), src, '' if mode == 'label' else '.ix', codec.short(i1, 40),
                mode, codec.short(created, 80), dims[0], codec.short(labs[0], 60))
            piece, exc = ctx.call("read for " + label, rd, operands=())
            try:
                piece_m = rdm()
            except Exception as ex:
                piece_m = ex
            ctx.outcomes['ondisk-reads-compared'] += 1
            if exc is not None and isinstance(piece_m, Exception):
                continue
            if exc is not None or isinstance(piece_m, Exception) or not same_result(piece, piece_m):
                ctx.v(ID, "crossvar:read", "read for %s: on disk %s, loaded array %s" % (label, repr(exc) if exc is not None else common.brief_res(piece), common.brief_res(piece_m) if not isinstance(piece_m, Exception) else repr(piece_m)))
                break
            pv_ = np.asarray(piece_m.values if common.is_da(piece_m) else piece_m, dtype=float)
            if fills[dst] is not None and np.any(pv_ == fills[dst]):
                # a cell equal to the target variable's own fill value IS a missing cell in a netCDF file: not a difference the library makes
                ctx.outcomes['crossvar-skipped:piece-holds-target-fill-value'] += 1
                continue
            _, wexc = ctx.call(label, lambda: wr(piece), operands=common.array_args(piece))
            try:
                wrm(piece_m)
                mexc = None
            except Exception as ex:
                mexc = ex
            ctx.outcomes['ondisk-crossvar-assignments'] += 1
            if (wexc is None) != (mexc is None):
                ctx.v(ID, "crossvar:exc-parity", "%s: on disk %r vs in memory %r" % (label, wexc, mexc))
                break
            bad = False
            for k in names:
                g, rexc = ctx.call("open_nc(f)[%r][:] after %s" % (k, label), lambda: f[k][:], operands=())
                if rexc is not None or not same_result(g, mem[k]):
                    ctx.v(ID, "crossvar:" + ("target" if k == dst else "other-variable"), "after %s the file's %r reads %s, the same assignment on the loaded arrays gives %s" % (
                        label, k, common.brief_res(g) if rexc is None else repr(rexc), common.brief_res(mem[k])))
                    bad = True
                    break
            if bad:
                break
            classes.append(('crossvar', nd, mode, ik, created[src], created[dst], src == dst))
    finally:
        f.close()
    final = da.read_nc(fn)
    for k in names:
        if not same_result(final[k], mem[k]):
            ctx.v(ID, "crossvar:final", "after the cross-variable assignments the re-read file's %r = %s differs from the in-memory result %s" % (k, common.brief_res(final[k]), common.brief_res(mem[k])))
    return classes


BODIES = {"read": read_body, "write": write_body, "unlimited": unlimited_body, "multi": multi_body, "crossvar": crossvar_body}


def check(case, ctx):
    return ncc.run_under_quirks(ID, case, ctx, BODIES[case["block"]])
