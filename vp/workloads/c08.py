"""C08 - reductions equal NumPy's along the named axis and drop only that axis."""
import itertools
import numpy as np
from .. import gen, model, codec
from . import common

ID = "C08"
LEVEL = "exploration"
RULE = ("float/int/bool arrays of 1-4 dims; block 'shapes' enumerates every shape over sizes 1-4 (340 shapes) with one random (function, "
        "axis form, skipna, NaN pattern) each per pass, random block draws shape, NaN pattern {none, sparse, dense, an all-NaN slice, all NaN}, "
        "function in {sum,prod,mean,var,std,min,max,ptp,all,any,median,percentile}, axis given by {name, position, None, tuple of names in "
        "any order}, skipna (Python or NumPy boolean). class = (function, skipna, axis form, dtype kind, NaN pattern, ndim, #reduced, result all-ones?); trivial = none")
ANCHORS = ["transform.apply_along_axis", "transform._get_func", "transform._deal_with_axis", "transform._median_with_nan", "stats.percentile"]
# entry points the workload calls itself; the other anchors are helpers behind them (counted as evidence only)
ANCHORS_REQUIRED = ["stats.percentile"]
FLOORS = {"quick": {"evaluations": 3000, "distinct": 1200, "outcome:tuple-axis": 300, "outcome:single-element-result": 200},
          "thorough": {"evaluations": 50000, "distinct": 3000}}
FUNCS = ['sum', 'prod', 'mean', 'var', 'std', 'min', 'max', 'ptp', 'all', 'any', 'median']
NANPAT = ['none', 'sparse', 'dense', 'slice', 'all', 'inf']


def all_shapes():
    out = []
    for nd in range(1, 5):
        out += list(itertools.product(range(1, 5), repeat=nd))
    return out


def shards(tier, seed, scale=1.0):
    out = []
    passes = 2 if tier == "quick" else 40
    for i in range(8):
        out.append({"name": "shapes-%d" % i, "kind": "enum", "block": "shapes", "part": i, "of": 8, "passes": passes, "seed": seed,
                    "exhaustive": True, "guest_ok": i == 0})
    out += common.rand_shards(ID, tier, seed, scale, 14000, 150000)
    return out


def cases(desc):
    rng = common.rng_for(ID, desc)
    if desc["kind"] == "enum":
        shapes = all_shapes()
        for p in range(desc["passes"]):
            for i, sh in enumerate(shapes):
                if i % desc["of"] == desc["part"]:
                    yield gen_case(rng, shape=sh)
        return
    for i in range(desc["n"]):
        yield gen_case(rng)


def gen_case(rng, shape=None):
    if shape is None:
        nd = rng.randint(1, 4)
        shape = tuple(rng.choice([1, 1, 2, 3, 4]) for _ in range(nd))
    nd = len(shape)
    dt = rng.choice('fffib')
    dims = rng.sample(gen.DIMS, nd)
    sp = gen.spec(rng, dims=dims, sizes=list(shape), dtype=dt, narrow=True)
    pat = 'none'
    if dt == 'f':
        pat = rng.choice(NANPAT)
        v = sp["values"]
        if pat == 'sparse':
            v[np.array([rng.random() < 0.15 for _ in range(v.size)]).reshape(v.shape)] = np.nan
        elif pat == 'dense':
            v[np.array([rng.random() < 0.6 for _ in range(v.size)]).reshape(v.shape)] = np.nan
        elif pat == 'slice':
            k = rng.randrange(nd)
            ix = [slice(None)] * nd
            ix[k] = rng.randrange(shape[k])
            v[tuple(ix)] = np.nan
            v[np.array([rng.random() < 0.1 for _ in range(v.size)]).reshape(v.shape)] = np.nan
        elif pat == 'all':
            v[...] = np.nan
        elif pat == 'inf':
            # infinities of both signs (and a few NaNs): NumPy's answer is still the reference
            for q_ in range(v.size):
                r_ = rng.random()
                if r_ < 0.25:
                    v.reshape(-1)[q_] = np.inf if r_ < 0.125 else -np.inf
                elif r_ < 0.3:
                    v.reshape(-1)[q_] = np.nan
    if dt == 'f' and rng.random() < 0.2:
        # single precision data (model output, satellite products): the same reductions, NaN handling included
        sp["values"] = sp["values"].astype(np.float32)
    f = rng.choice(FUNCS + ['percentile', 'median'])
    if f == 'percentile' and dt == 'b':
        f = 'median'
    mode = rng.choice(['name', 'pos', 'none', 'tuple', 'name', 'pos'])
    if f == 'percentile' and mode in ('none', 'tuple'):
        mode = 'name'
    c = {"a": sp, "f": f, "skipna": rng.random() < 0.5, "mode": mode, "pat": pat, "dt": dt}
    if mode == 'tuple':
        c["axis"] = tuple(rng.sample(dims, rng.randint(1, nd)))
        if rng.random() < 0.2:
            c["axis"] = list(c["axis"])
    elif mode != 'none':
        k = rng.randrange(nd)
        c["axis"] = dims[k] if mode == 'name' else k
    else:
        c["axis"] = None
    if f == 'percentile':
        c["q"] = rng.choice([50, 25.0, [10, 50, 90], [75], [0, 100]])
        c["skipna"] = False
    return c


def np_reduce(v, f, ax, skipna):
    """NumPy's answer along a single axis (or None)"""
    if not skipna or v.dtype.kind != 'f':
        if f == 'median':
            e = np.median(v, axis=ax)
            if v.dtype.kind == 'f' and np.isnan(v).any():
                m = np.isnan(v).any(axis=ax)
                e = np.where(m, np.nan, e) if np.ndim(e) else (np.float64('nan') if m else e)
            return e
        if skipna and hasattr(np, 'nan' + f):
            return getattr(np, 'nan' + f)(v, axis=ax)
        return getattr(np, f)(v, axis=ax)
    nf = getattr(np, 'nan' + f, None)
    if nf is not None:
        return nf(v, axis=ax)
    if not np.isnan(v).any():
        return getattr(np, f)(v, axis=ax)
    mv = np.ma.array(v, mask=np.isnan(v))
    e = getattr(np.ma, f)(mv, axis=ax)
    return e.filled(np.nan) if np.ma.isMaskedArray(e) else e


def check(case, ctx):
    da = __import__("vp.boot", fromlist=["boot"]).boot()
    sp = case["a"]
    m = model.from_spec(sp)
    a = common.build_under_option(sp, ctx.outcomes)
    f, skipna, axis, mode = case["f"], case["skipna"], case["axis"], case["mode"]
    v = m.values
    nd = m.ndim
    # ---- which dims are reduced
    if mode == 'none':
        red = list(range(nd))
    elif mode == 'tuple':
        red = [m.dims.index(d) for d in axis]
    else:
        red = [axis if isinstance(axis, int) else m.dims.index(axis)]
    keep = [i for i in range(nd) if i not in red]
    exp_dims = [m.dims[i] for i in keep]
    exp_labs = [m.labels[i] for i in keep]
    # ---- NumPy's value: bring reduced dims to the front (in the listed order), flatten them, reduce axis 0
    with np.errstate(all='ignore'):
        np_exc = None
        try:
            if f == 'percentile':
                e = np.percentile(v, case["q"], axis=red[0])
            elif mode == 'none':
                e = np_reduce(v, f, None, skipna)
            elif mode == 'tuple':
                vt = np.transpose(v, red + keep).reshape((-1,) + tuple(v.shape[i] for i in keep))
                e = np_reduce(vt, f, 0, skipna)
            else:
                e = np_reduce(v, f, red[0], skipna)
        except Exception as ex:
            np_exc = ex
    if f == 'percentile':
        from dimarray.lib.stats import percentile
        label = "percentile(a, %r, axis=%r)" % (case["q"], axis)
        if axis == 0:
            label = "percentile(a, %r)" % (case["q"],)
            fn = lambda: percentile(a, case["q"])       # axis=0 is the default
        else:
            fn = lambda: percentile(a, case["q"], axis=axis)
    else:
        import zlib
        # the flag as a NumPy boolean (what `np.isnan(x).any()` returns) one time in three
        sk_arg = np.bool_(skipna) if zlib.crc32(repr((f, axis, case.get("pat"), v.shape)).encode()) % 3 == 0 else skipna
        label = "a.%s(axis=%r, skipna=%r)" % (f, axis, sk_arg)
        if mode == 'none' and case.get("pat") in ('none', 'dense'):
            fn = lambda: getattr(a, f)(skipna=sk_arg)      # axis=None is the default
        else:
            fn = lambda: getattr(a, f)(axis=axis, skipna=sk_arg)
    label += " on %s%s dims=%r nan=%s" % (v.dtype, v.shape, m.dims, case["pat"])
    res, exc = ctx.call(label, fn, operands=(a,), meta='carry', ambient=True)
    allones = bool(keep) and all(v.shape[i] == 1 for i in keep)
    klass = (f, skipna, mode, v.dtype.kind, case["pat"], nd, len(red), allones)
    if mode == 'tuple':
        ctx.outcomes['tuple-axis'] += 1
    if np_exc is not None:
        ctx.outcomes['numpy-raises'] += 1
        if exc is None:
            ctx.v(ID, "no-raise", "%s returned %s although NumPy raises %s(%s)" % (label, common.brief_res(res), type(np_exc).__name__, str(np_exc)[:80]))
        return klass
    if f == 'percentile' and not np.isscalar(case["q"]):
        exp = model.MA(e, [m.dims[red[0]] + "_percentile"] + exp_dims, [list(case["q"])] + exp_labs)
    else:
        exp = model.MA(e, exp_dims, exp_labs)
    if exp.ndim and exp.values.size == 1:
        ctx.outcomes['single-element-result'] += 1
    # pairwise summation follows the memory layout: the model (C-ordered copy) and the library (possibly Fortran-ordered
    # values) may differ in the last bits
    tol = dict(rtol=1e-9, atol=1e-12) if mode == 'tuple' else dict(rtol=1e-12, atol=1e-12) if sp.get("forder") else {}
    if v.dtype == np.float32 and tol:
        tol = dict(rtol=1e-4, atol=1e-6)          # (sums taken in another order, in single precision)
    ok = common.expect(ctx, ID, "reduce" if f != 'percentile' else "percentile", label, res, exc, exp=exp, **tol)
    if ok and common.is_da(res):
        from .. import monitors
        p = monitors.meta_ok(res, 'carry')
        if p:
            ctx.v(ID, "attrs-dropped:" + ("percentile" if f == 'percentile' else "reduce"), "%s: %s" % (label, p))
    if ok and exp.ndim == 0 and common.is_da(res) and res.ndim == 0:
        ctx.relaxed['0-d DimArray instead of scalar'] += 1
    return klass
