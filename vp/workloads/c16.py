"""C16 - metadata: attribute routing and propagation rules.

Routing: a model of the statement per class (DimArray, Dataset, Axis) decides, for a name and a
value, what set / get / hasattr / del must do; names are drawn from public identifiers,
underscore-prefixed names, every public member of the class (introspected with dir, so that a new
member is picked up) and the object's dimension names.
Propagation: sentinel metadata at array and axis level and a table of operation classes."""
import numpy as np
from .. import gen, model, codec, monitors
from . import common

ID = "C16"
LEVEL = "exploration"
RULE = ("block 'routing': object of class {DimArray, Dataset, Axis} x name kind {public, underscore, class member (every name in dir(cls)), "
        "dimension name} x value type {str,int,float,list,dict,ndarray,None,bool} x action sequence set/get/hasattr/del and direct attrs "
        "entries under reserved names; block 'propagation': every listed operation class on arrays carrying array-level and axis-level "
        "sentinel metadata (incl. mutable values); cross-sections handed out by iter / for-in / to_list / to_dataset count as indexing. class = (block, class, name kind, value type) or (operation, ndim); trivial = none. "
        "Guest shards re-run the C01-C18 workloads with the M-META monitor deciding.")
ANCHORS = ["bases.__getattr__", "bases.__setattr__", "bases.__delattr__", "bases.attrs"]
# entry points the workload calls itself; the other anchors are helpers behind them (counted as evidence only)
ANCHORS_REQUIRED = ["bases.__getattr__", "bases.__setattr__", "bases.__delattr__"]
FLOORS = {"quick": {"evaluations": 2000, "distinct": 300, "outcome:routing-steps": 4000, "outcome:propagation-ops": 2000, "event:meta_checks": 5000},
          "thorough": {"evaluations": 30000, "distinct": 500}}
GUESTS = [("c01", 0.1), ("c02", 0.05), ("c07", 0.1), ("c08", 0.1), ("c09", 0.1), ("c10", 0.1), ("c11", 0.1), ("c12", 0.1), ("c04", 0.1),
          ("c17", 0.1), ("c18", 0.1)]
PUBLIC = ['units', 'long_name', 'foo', 'standard_name', 'Bar9', 'x_y', 'name2', 'description']
UNDER = ['_private', '__dunder', '_', '_values2', '_FillValue']
CLASSES = ['DimArray', 'Dataset', 'Axis', 'GroupedAxis']


def shards(tier, seed, scale=1.0):
    out = common.rand_shards(ID, tier, seed, scale, 2400, 40000, nshards=8)
    for d in out:
        d["block"] = "routing"
        d["name"] = "routing-" + d["name"]
    out2 = common.rand_shards(ID, tier, seed, scale, 2400, 40000, nshards=8)
    for d in out2:
        d["block"] = "propagation"
        d["name"] = "propagation-" + d["name"]
    return out + out2


def values_pool(rng):
    return rng.choice([("str", "metres"), ("int", 3), ("float", 2.5), ("list", [1, 2]), ("dict", {"k": [1]}), ("ndarray", np.arange(3.0)),
                       ("None", None), ("bool", True), ("tuple", (1, 'a'))])


def cases(desc):
    rng = common.rng_for(ID, desc)
    if desc["block"] == "routing":
        for i in range(desc["n"]):
            cls = rng.choice(CLASSES)
            nk = rng.choice(['public', 'public', 'underscore', 'member', 'member', 'dim'])
            if cls in ('Axis', 'GroupedAxis') and nk == 'dim':
                nk = 'public'
            vt, v = values_pool(rng)
            yield {"block": "routing", "cls": cls, "namekind": nk, "vtype": vt, "value": v, "pick": rng.randrange(10 ** 6),
                   "a": gen.spec(rng, mindim=1, maxdim=3)}
        return
    for i in range(desc["n"]):
        yield {"block": "propagation", "a": gen.spec(rng, mindim=1, maxdim=4, minsize=1, maxsize=4, dtype=rng.choice('ffi')),
               "pick": rng.randrange(10 ** 6)}


def make_obj(cls, sp):
    da = __import__("vp.boot", fromlist=["boot"]).boot()
    a = gen.build(sp, meta=False)
    if cls == 'DimArray':
        return a, list(a.dims)
    if cls == 'Dataset':
        ds = da.Dataset()
        ds['v'] = a
        ds['w'] = a.take(0, axis=0, indexing='position') if a.ndim > 1 else a * 2
        return ds, list(ds.dims)
    if cls == 'GroupedAxis' and a.ndim >= 2:
        # the axis of a flattened array (a subclass of Axis with members of its own)
        return a.flatten().axes[0], []
    return a.axes[0], []


def same_obj(x, y):
    return x is y or monitors.freeze(x) == monitors.freeze(y)


def set_keywords(case, ctx, rng):
    """Axis.set / DimArray.set_axis / Dataset.set_axis store their extra key-words with setattr: a public name enters the axis' attrs,
    a class member (tol) is set as such and stays out of attrs"""
    da = __import__("vp.boot", fromlist=["boot"]).boot()
    cls = 'Axis' if case["cls"] == 'GroupedAxis' else case["cls"]
    o, dims = make_obj('DimArray' if cls == 'Axis' else cls, case["a"])
    d = rng.choice(dims)
    by = rng.choice(['name', 'pos'])
    axarg = d if by == 'name' else list(o.dims).index(d)
    pub = rng.choice([n for n in PUBLIC if n not in dims and not hasattr(da.Axis, n)])
    tol = rng.choice([0.05, 0.5, 2])
    if cls == 'Axis':
        label, fn = "Axis.set(%s=..., tol=%r)" % (pub, tol), lambda: o.axes[d].set(**{pub: 'v1', 'tol': tol})
    else:
        label, fn = "%s.set_axis(axis=%r, %s=..., tol=%r)" % (cls, axarg, pub, tol), lambda: o.set_axis(axis=axarg, **{pub: 'v1', 'tol': tol})
    ctx.outcomes['routing-steps'] += 1
    ctx.outcomes['set-keyword-steps'] += 1
    before = dict(o.axes[d].attrs)
    try:
        fn()
    except Exception as e:
        ctx.v(ID, "routing:set-keywords-raised", "%s raised %s: %s" % (label, type(e).__name__, str(e)[:120]))
        return
    ax = o.axes[d]
    exp = dict(before)
    exp[pub] = 'v1'
    if monitors.freeze(dict(ax.attrs)) != monitors.freeze(exp):
        ctx.v(ID, "routing:set-keywords-attrs", "%s: the axis' attrs are %r, expected %r (class members such as tol never enter attrs)" % (label, dict(ax.attrs), exp))
    if ax.tol != tol:
        ctx.v(ID, "routing:set-keywords-member", "%s: axis.tol is %r" % (label, ax.tol))


def routing(case, ctx):
    import random
    rng = random.Random(case["pick"])
    if case["pick"] % 10 == 0:
        return set_keywords(case, ctx, rng)
    cls, nk, v = case["cls"], case["namekind"], case["value"]
    o, dims = make_obj(cls, case["a"])
    C = type(o)
    members = sorted(n for n in dir(C) if not n.startswith('_'))
    formerdim = None
    if dims and cls in ('DimArray', 'Dataset') and case["pick"] % 3 == 0:
        # the object has been in use (attribute look-ups included) and then had one dimension renamed in place:
        # the new name now routes to the axis, the former name is an ordinary metadata name again
        j = rng.randrange(len(dims))
        try:
            hasattr(o, 'units'), getattr(o, dims[j]), getattr(o, dims[0])
        except Exception:
            pass
        formerdim, newdim = dims[j], 'lon9'
        how = rng.choice(['set_axis', 'axis.name', 'dims'] + (['rename_axes'] if cls == 'Dataset' else []))
        if how == 'set_axis':
            o.set_axis(name=newdim, axis=formerdim)
        elif how == 'axis.name':
            o.axes[formerdim].name = newdim
        elif how == 'dims':
            o.dims = tuple(newdim if d == formerdim else d for d in o.dims)
        else:
            o.rename_axes({formerdim: newdim})
        dims = [newdim if d == formerdim else d for d in dims]
        ctx.outcomes['routing-after-inplace-rename:' + how] += 1
    if nk == 'public':
        name = formerdim if (formerdim and rng.random() < 0.6) else rng.choice([n for n in PUBLIC if not hasattr(C, n) and n not in dims])
    elif nk == 'underscore':
        name = rng.choice(UNDER)
    elif nk == 'member':
        name = rng.choice(members)
    else:
        name = 'lon9' if (formerdim and rng.random() < 0.6) else rng.choice(dims)
    where = "%s name=%r (%s%s) value=%s" % (cls, name, nk, (", after %r was renamed 'lon9' in place" % formerdim) if formerdim else "", codec.short(v, 60))
    attrs0 = monitors.freeze(dict(o.attrs))
    ctx.outcomes['routing-steps'] += 1

    def step(label, fn):
        ctx.outcomes['routing-steps'] += 1
        try:
            return fn(), None
        except Exception as e:
            return None, e

    if nk == 'public':
        # absent: hasattr False, get raises AttributeError
        if hasattr(o, name):
            ctx.v(ID, "routing:public-absent-hasattr", "%s: hasattr is True before anything was set" % where)
        _, e = step("set", lambda: setattr(o, name, v))
        if e is not None:
            ctx.v(ID, "routing:public-set-raised", "%s: setattr raised %s: %s" % (where, type(e).__name__, e))
            return
        if name not in o.attrs or not same_obj(o.attrs[name], v):
            ctx.v(ID, "routing:public-set-not-in-attrs", "%s: after o.%s = v, attrs = %r" % (where, name, o.attrs))
        if name in o.__dict__:
            ctx.v(ID, "routing:instance-dict", "%s: o.%s = v created an instance attribute" % (where, name))
        g, e = step("get", lambda: getattr(o, name))
        if e is not None or not same_obj(g, v):
            ctx.v(ID, "routing:public-get", "%s: getattr gave %r (%s), expected the stored value" % (where, g, type(e).__name__))
        if not hasattr(o, name):
            ctx.v(ID, "routing:public-hasattr", "%s: hasattr False after set" % where)
        # setting it again to a value that compares equal but is another object / type: the attrs entry is the new value
        twin = {int: float, float: (lambda x: np.float32(x) if float(np.float32(x)) == x else np.float64(x)), list: tuple, tuple: list,
                bool: int, str: (lambda x: str(x)[:]), dict: (lambda x: dict(x))}.get(type(v))
        if twin is not None:
            v2 = twin(v)
            _, e = step("set-equal-twin", lambda: setattr(o, name, v2))
            got2 = o.attrs.get(name)
            if e is not None or type(got2) is not type(v2) or (got2 is not v2 and isinstance(v2, (list, tuple, dict))):
                ctx.v(ID, "routing:public-reset-equal-value", "%s: after o.%s = %r (%s) following an equal %s, attrs[%r] is %r (%s)" % (
                    where, name, v2, type(v2).__name__, type(v).__name__, name, got2, type(got2).__name__))
        # writing through attrs is the same thing
        vt2 = "other-" + str(case["pick"])
        o.attrs[name] = vt2
        g, e = step("get", lambda: getattr(o, name))
        if e is not None or g != vt2:
            ctx.v(ID, "routing:public-attrs-write", "%s: attrs[%r] = x is not visible as attribute (%r, %s)" % (where, name, g, type(e).__name__))
        _, e = step("del", lambda: delattr(o, name))
        if e is not None or name in o.attrs:
            ctx.v(ID, "routing:public-del", "%s: delattr raised %s / attrs still %r" % (where, type(e).__name__ if e else None, o.attrs))
        if hasattr(o, name):
            ctx.v(ID, "routing:public-del-hasattr", "%s: attribute still reachable after del" % where)
        _, e = step("del2", lambda: delattr(o, name))
        if not isinstance(e, AttributeError):
            ctx.v(ID, "routing:public-del-absent", "%s: deleting an absent attribute raised %s, expected AttributeError" % (where, type(e).__name__ if e else None))
        if monitors.freeze(dict(o.attrs)) != attrs0:
            ctx.v(ID, "routing:attrs-residue", "%s: attrs not back to the initial state: %r" % (where, o.attrs))
    elif nk == 'underscore':
        _, e = step("set", lambda: setattr(o, name, v))
        if name in o.attrs:
            ctx.v(ID, "routing:underscore-in-attrs", "%s: o.%s = v entered attrs: %r" % (where, name, o.attrs))
        if e is None:
            g, e2 = step("get", lambda: getattr(o, name))
            if e2 is not None or not same_obj(g, v):
                ctx.v(ID, "routing:underscore-get", "%s: private attribute not readable back (%r, %s)" % (where, g, type(e2).__name__ if e2 else None))
            step("del", lambda: delattr(o, name))
        # an attrs entry under such a name is neither reachable nor deletable through attribute syntax
        sentinel = ("sentinel", case["pick"])
        o.attrs[name] = sentinel
        g, e = step("get", lambda: getattr(o, name))
        if e is None and g is sentinel:
            ctx.v(ID, "routing:underscore-attrs-reachable", "%s: attrs[%r] is reachable as o.%s" % (where, name, name))
        elif e is not None and not isinstance(e, AttributeError):
            ctx.v(ID, "routing:underscore-get-exc", "%s: getattr raised %s, expected AttributeError" % (where, type(e).__name__))
        _, e = step("del", lambda: delattr(o, name))
        if name not in o.attrs:
            ctx.v(ID, "routing:underscore-attrs-deletable", "%s: del o.%s removed the attrs entry" % (where, name))
        del o.attrs[name]
    elif nk == 'member':
        # reserved: an attrs entry under a member's name is not returned by getattr, not deletable
        sentinel = ("sentinel", case["pick"])
        o.attrs[name] = sentinel
        g, e = step("get", lambda: getattr(o, name))
        if e is None and g is sentinel:
            ctx.v(ID, "routing:member-attrs-reachable", "%s: attrs[%r] shadows the class member" % (where, name))
        if name != 'attrs':     # `del o.attrs` is the documented way to clear all metadata
            _, e = step("del", lambda: delattr(o, name))
            if name not in o.attrs:
                ctx.v(ID, "routing:member-attrs-deletable", "%s: del o.%s removed the attrs entry" % (where, name))
        o.attrs.pop(name, None)
        # setting never enters attrs (whatever else it does: set a property, raise, ...)
        o2, _ = make_obj(cls, case["a"])
        _, e = step("set", lambda: setattr(o2, name, v))
        if name in o2.attrs:
            ctx.v(ID, "routing:member-in-attrs", "%s: o.%s = v entered attrs: %r" % (where, name, o2.attrs))
    else:
        ax = o.axes[name]
        lab0 = ax.values.tolist()
        g, e = step("get", lambda: getattr(o, name))
        if e is not None or not model.labels_eq(list(np.asarray(g).tolist()), lab0):
            ctx.v(ID, "routing:dim-get", "%s: o.%s gave %r (%s), expected the axis labels %r" % (where, name, g, type(e).__name__ if e else None, lab0))
        # an attrs entry that happens to carry the dimension's name does not shadow the axis
        sentinel = ("sentinel", case["pick"])
        o.attrs[name] = sentinel
        g, e = step("get", lambda: getattr(o, name))
        if e is not None or g is sentinel or not model.labels_eq(list(np.asarray(g).tolist()), lab0):
            ctx.v(ID, "routing:dim-shadowed-by-attrs", "%s: with attrs[%r] set, o.%s gave %r (%s), expected the axis labels %r" % (where, name, name, g, type(e).__name__ if e else None, lab0))
        del o.attrs[name]
        kind = gen.kind_of(lab0)
        newl = [x + 1000 for x in lab0] if kind != 's' else [x + 'Z' for x in lab0]
        newv = newl if rng.random() < 0.5 else gen.np_labels(newl, kind)
        _, e = step("set", lambda: setattr(o, name, newv))
        if e is not None:
            ctx.v(ID, "routing:dim-set-raised", "%s: o.%s = labels raised %s: %s" % (where, name, type(e).__name__, e))
            return
        if name in o.attrs:
            ctx.v(ID, "routing:dim-in-attrs", "%s: o.%s = labels entered attrs" % (where, name))
        if not model.labels_eq(o.axes[name].values.tolist(), newl):
            ctx.v(ID, "routing:dim-set", "%s: after o.%s = %r the axis has %r" % (where, name, newl, o.axes[name].values.tolist()))
        if cls == 'Dataset':
            for k in o.keys():
                var = dict.__getitem__(o, k)
                if name in var.dims and not model.labels_eq(var.axes[name].values.tolist(), newl):
                    ctx.v(ID, "routing:dim-set-sharers", "%s: variable %r does not see the relabelled axis" % (where, k))
        if monitors.freeze(dict(o.attrs)) != attrs0:
            ctx.v(ID, "routing:dim-attrs-touched", "%s: attrs changed: %r" % (where, o.attrs))


def propagation(case, ctx):
    import random
    da = __import__("vp.boot", fromlist=["boot"]).boot()
    rng = random.Random(case["pick"])
    sp = case["a"]
    m = model.from_spec(sp)
    nd = m.ndim

    dimkey = m.dims[case["pick"] % nd] if case["pick"] % 3 == 0 else None
    # metadata stored under the name of a class member - which for some is also the name of a constructor parameter
    memberkey = rng.choice(['values', 'axes', 'dims', 'labels', 'dtype', 'copy', 'shape', 'T', 'size', 'ndim']) if case["pick"] % 4 == 1 else None
    axmember = rng.choice(['values', 'name', 'dtype', 'tol', 'size']) if case["pick"] % 4 == 1 else None
    k = rng.randrange(nd)
    d = m.dims[k]

    if case["pick"] % 11 == 5:
        # numbers held in an object array (read from a spreadsheet, mixed with None once ...): metadata travels all the same
        sp = dict(sp)
        sp["values"] = np.asarray(sp["values"]).astype(object)
        ctx.outcomes['propagation-object-dtype-values'] += 1

    def fresh():
        a_ = gen.build(sp)            # carries sentinel attrs + axis sentinels
        if dimkey:
            a_.attrs[dimkey] = 'metadata whose key equals a dimension name'
        if memberkey:
            a_.attrs[memberkey] = 'metadata whose key names a class member'
            a_.axes[d].attrs[axmember] = 'axis metadata whose key names a class member'
        return a_
    lab = m.labels[k]
    n = len(lab)
    numeric = sp["kinds"][k] in 'if'
    mlabels = list(m.labels)
    absent = lambda: [gen.absent_label(rng, lab, sp["kinds"][k])]
    # one case in seven: the axis the operations work along carries datetime64 / timedelta64 / bool labels
    # (only the metadata is compared in this block, so no model of such labels is needed)
    exo = 'Mmb'[(case["pick"] // 7) % 3] if case["pick"] % 7 == 3 else None
    if exo:
        distinct = sorted(set(lab))
        if exo == 'b' and len(distinct) > 2:
            exo = 'M'
        rank = {v: distinct.index(v) for v in distinct}
        if exo == 'M':
            exolab = [np.datetime64('2001-01-01') + rank[v] for v in lab]
            absent = lambda: [np.datetime64('2031-05-01')]
        elif exo == 'm':
            exolab = [np.timedelta64(rank[v], 'D') for v in lab]
            absent = lambda: [np.timedelta64(1000, 'D')]
        else:
            exolab = [np.bool_(rank[v]) for v in lab]
            absent = lambda: [np.bool_(True)] if len(distinct) < 2 else []
        lab = exolab
        mlabels[k] = lab
        numeric = False
        ctx.outcomes['propagation-exotic-labels-' + exo] += 1
        _fresh0 = fresh

        def fresh():
            a_ = _fresh0()
            a_.axes[k].values = np.array(lab)
            return a_
    ops = []
    # ---- carried
    one = lab[rng.randrange(n)]
    some = [lab[rng.randrange(n)] for _ in range(rng.randint(1, 3))]
    mask = np.array([rng.random() < 0.6 for _ in range(n)], dtype=bool)
    i, j = sorted([rng.randrange(n), rng.randrange(n)])
    sl = slice(lab[i], lab[j]) if (not numeric or model.direction(lab) is None or model.direction(lab) == 'inc') else slice(lab[j], lab[i]) if False else slice(None, None)
    ops += [("index-scalar", 'carry', lambda a: a.take(one, axis=d), None),
            ("index-list", 'carry', lambda a: a.take(some, axis=d), d),
            ("index-mask", 'carry', lambda a: a.take(mask, axis=d), d),
            ("index-slice", 'carry', lambda a: a.take(sl, axis=d), d),
            ("index-ix", 'carry', lambda a: a.ix[(slice(None),) * k + ([0],)], d),
            ("index-empty-list", 'carry', lambda a: a.take([], axis=d), d),
            ("index-empty-array-ix", 'carry', lambda a: a.ix[(slice(None),) * k + (np.array([], dtype=int),)], d),
            ("index-empty-tuple", 'carry', lambda a: a[(slice(None),) * k + ([],)], d),
            ("index-all-false-mask", 'carry', lambda a: a.take(np.zeros(n, dtype=bool), axis=d), d),
            ("index-loc-dict", 'carry', lambda a: a.loc[{d: some}], d),
            ("take_axis", 'carry', lambda a: a.take_axis(some, axis=d), d),
            # cross-sections handed out by the iteration protocols (0-d results are scalars and are not looked at)
            ("index-iter(axis)", 'carry', lambda a: list(a.iter(d))[-1][1], None),
            ("index-for-sub-in-a", 'carry', lambda a: [sub for sub in a][0], None),
            ("index-to_list", 'carry', lambda a: a.to_list(d)[0], None),
            ("index-to_dataset-item", 'carry', lambda a: a.to_dataset(d)[a.axes[d].values[0]] if a.ndim > 1 else None, None),   # (1-D: the items are scalars)
            ("compress_axis", 'carry', lambda a: a.compress_axis(mask, axis=d), d),
            ("reindex_axis", 'carry', lambda a: a.reindex_axis(some + absent(), axis=d), d),
            ("reindex_axis-self", 'carry', lambda a: a.reindex_axis(list(lab), axis=d), d),
            # the requested labels come as an Axis with metadata of its own: the array's axis keeps its own
            ("reindex_axis-Axis-missing", 'carry', lambda a: a.reindex_axis(da.Axis(some + absent(), d, vp_other='target', units='other')), d),
            ("reindex_axis-Axis-present", 'carry', lambda a: a.reindex_axis(da.Axis(list(some), d, vp_other='target')), d),
            ("sort_axis", 'carry', lambda a: a.sort_axis(axis=d), None),
            ("transpose", 'carry', lambda a: a.transpose(list(reversed(a.dims))), None),
            ("swapaxes", 'carry', lambda a: a.swapaxes(0, k), None),
            ("rollaxis", 'carry', lambda a: a.rollaxis(k), None),
            ("newaxis", 'carry', lambda a: a.newaxis('nn', pos=rng.randint(0, nd)), None),
            ("newaxis-values", 'carry', lambda a: a.newaxis('nn', values=[1, 2], pos=0), None),
            ("squeeze", 'carry', lambda a: a.newaxis('nn').squeeze('nn'), None),
            ("repeat", 'carry', lambda a: a.newaxis('nn').repeat(2, axis='nn'), None),
            ("broadcast", 'carry', lambda a: a.broadcast([da.Axis([1, 2], 'nn')] + list(a.axes)), None),
            ("flatten", 'carry', lambda a: a.flatten(), None),
            ("unflatten", 'carry', lambda a: a.flatten().unflatten(), None),
            ("reshape", 'carry', lambda a: a.reshape(list(reversed(a.dims)) + ['nn']), None),
            ("reshape-group", 'carry', lambda a: a.reshape([",".join(a.dims)]) if nd > 1 else a.reshape(['nn', a.dims[0]]), None),
            ("cumsum", 'carry', lambda a: a.cumsum(axis=d), None),
            ("cumprod", 'carry', lambda a: a.cumprod(axis=k), None),
            ("reindex_like", 'carry', lambda a: a.reindex_like(a.take(some, axis=d)), None),
            ]
    for f in ('sum', 'mean', 'std', 'var', 'min', 'max', 'prod', 'median', 'any', 'all', 'ptp'):
        if nd > 1:
            ops.append(("reduce-" + f, 'carry', lambda a, f=f: getattr(a, f)(axis=d), None))
    if nd > 2:
        other = [x for x in m.dims if x != d][:2]
        ops.append(("reduce-tuple", 'carry', lambda a: a.mean(axis=tuple(other)), None))
    if nd > 1:
        ops.append(("argmin-axis", 'carry', lambda a: a.argmin(axis=d), None))
        ops.append(("argmax-axis", 'carry', lambda a: a.argmax(axis=k), None))
    if n > 1:
        ops.append(("diff", 'carry', lambda a: a.diff(axis=d), None))
        ops.append(("diff-keepaxis", 'carry', lambda a: a.diff(axis=d, keepaxis=True, scheme='forward'), None))
    if numeric:
        lo, hi = min(lab), max(lab)
        ops.append(("interp_axis", 'carry', lambda a: a.interp_axis([lo, (lo + hi) / 2.0, hi + 1], axis=d), None))
        ops.append(("interp_like", 'carry', lambda a: a.interp_like(da.DimArray([0., 0.], axes=[da.Axis([float(lo), float(hi)], d)])), None))
    # ---- dropped
    ops += [("a+a", 'drop', lambda a: a + a, None), ("a*2", 'drop', lambda a: a * 2, None), ("2-a", 'drop', lambda a: 2 - a, None),
            ("-a", 'drop', lambda a: -a, None), ("a+b", 'drop', lambda a: a + fresh().take(some, axis=d), None),
            ("a==a", 'drop', lambda a: a == a, None), ("a<2", 'drop', lambda a: a < 2, None), ("a>=a", 'drop', lambda a: a >= a, None),
            ("a!=1", 'drop', lambda a: a != 1, None), ("(a>1)&(a<9)", 'drop', lambda a: (a > 1) & (a < 9), None), ("(a>1)|(a<0)", 'drop', lambda a: (a > 1) | (a < 0), None),
            ("+a", 'drop', lambda a: +a, None), ("~(a>1)", 'drop', lambda a: ~(a > 1), None),
            ("stack", 'drop', lambda a: da.stack([a, a], axis='snew', keys=['p', 'q']), None),
            ("stack-dict", 'drop', lambda a: da.stack({'p': a, 'q': a}, axis='snew'), None),
            ("concatenate", 'drop', lambda a: da.concatenate([a, a], axis=d), None),
            ("concatenate-pos", 'drop', lambda a: da.concatenate((a, a), axis=k), None)]
    rng.shuffle(ops)
    classes = []
    for name, fate, fn, axis_kept in ops[:14]:
        a = fresh()
        label = "%s on dims=%r shape=%r" % (name, m.dims, m.shape)
        res, exc = ctx.call(label, lambda: fn(a), operands=(a,))
        ctx.outcomes['propagation-ops'] += 1
        if exc is not None:
            # judged by the property owning the operation; here only metadata is at stake ...
            ctx.outcomes['propagation-op-raised'] += 1
            if memberkey:
                # ... unless the operation works without the member-named entries and raises only because of them
                a2 = gen.build(sp)
                try:
                    fn(a2)
                    ctx.v(ID, "propagation-memberkey-raised:" + name, "%s with attrs[%r] and axis %r attrs[%r] set raised %s: %s (it works without these entries)" % (
                        label, memberkey, d, axmember, type(exc).__name__, str(exc)[:120]))
                except Exception:
                    pass
            continue
        classes.append(('propagation', name, nd))
        if not common.is_da(res):
            continue
        monitors.COUNTS['meta_checks'] += 1
        if dimkey and fate == 'carry':
            if res.attrs.get(dimkey) != 'metadata whose key equals a dimension name':
                ctx.v(ID, "propagation-carry-dimkey:" + name, "%s: attrs[%r] (a key equal to a dimension name) not carried: attrs=%r" % (label, dimkey, res.attrs))
            res.attrs.pop(dimkey, None)
            if dimkey in a.dims and not model.labels_eq(a.axes[dimkey].values.tolist(), np.array(mlabels[m.dims.index(dimkey)]).tolist()):
                ctx.v(ID, "propagation-dimkey-overwrote-labels:" + name, "%s: the source's labels of %r were overwritten by the metadata entry" % (label, dimkey))
        if memberkey and fate == 'carry':
            ctx.outcomes['propagation-member-named-key'] += 1
            if res.attrs.get(memberkey) != 'metadata whose key names a class member':
                ctx.v(ID, "propagation-carry-memberkey:" + name, "%s: attrs[%r] (a key naming a class member) not carried: attrs=%r" % (label, memberkey, res.attrs))
        if memberkey:
            res.attrs.pop(memberkey, None)
            a.attrs.pop(memberkey, None)
        p = monitors.meta_ok(res, fate)
        if p:
            ctx.v(ID, "propagation-%s:%s" % (fate, name), "%s: %s" % (label, p))
        if fate == 'carry':
            # carried unchanged, and the source's metadata is untouched
            if monitors.freeze({k_: v_ for k_, v_ in a.attrs.items() if k_ != dimkey}) != monitors.freeze(monitors.sentinel_attrs()):
                ctx.v(ID, "propagation-source-touched:" + name, "%s: source attrs now %r" % (label, a.attrs))
        if axis_kept is not None and axis_kept in res.dims:
            got = res.axes[axis_kept].attrs
            want = dict(monitors.axis_sentinel(axis_kept))
            if axmember and axis_kept == d:
                want[axmember] = 'axis metadata whose key names a class member'
            if monitors.freeze(dict(got)) != monitors.freeze(want):
                ctx.v(ID, "axis-attrs-lost:" + name, "%s: attrs of axis %r are %r after slicing/reindexing it, expected %r" % (label, axis_kept, dict(got), want))
    return classes


def check(case, ctx):
    if case["block"] == "routing":
        routing(case, ctx)
        return ('routing', case["cls"], case["namekind"], case["vtype"])
    return propagation(case, ctx)
