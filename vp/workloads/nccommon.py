"""shared helpers for the netCDF workloads C19 / C20 (stand-in netCDF4, see vp/standins)"""
import itertools
import os
import shutil
import tempfile
import numpy as np
from .. import gen, model, codec, monitors
from . import common

QUIRK_NAMES = ["scalar_shape1", "always_mask", "sorted_unique_seq"]
QUIRK_COMBOS = [dict(zip(QUIRK_NAMES, c)) for c in itertools.product([False, True], repeat=3)]
ATTR_POOL = [("units", "K"), ("long_name", "a long name"), ("n", 3), ("xv", 2.5), ("l", [1, 2, 3]), ("lf", [0.5, 1.5])]
STR_VALUES = ['p', 'qq', 'rrr', 'st', 'u5', 'vw9']


def set_quirks(q):
    import netCDF4
    netCDF4.QUIRKS.update(q)


def rand_attrs(rng, prefix=""):
    out = {}
    for k, v in rng.sample(ATTR_POOL, rng.randint(0, 3)):
        out[prefix + k] = v
    if rng.random() < 0.15:
        # metadata under a name the attribute protocol does not reach (a class member, an underscore name): still metadata
        k, v = rng.choice([("shape", "round"), ("values", "v"), ("_hid", 3), ("size", 4), ("dims", "d")])
        out[k] = v
    return out


def gen_var(rng, axes, dims, fmt, vkind=None):
    vkind = vkind or rng.choice(['f', 'fn', 'i', 'i4', 's'] if fmt == 'NETCDF4' else ['f', 'fn', 'i', 'i4'])
    shape = tuple(len(axes[d][0]) for d in dims)
    n = int(np.prod(shape)) if shape else 1
    if vkind == 's':
        v = np.empty(n, dtype=object)
        for i in range(n):
            v[i] = rng.choice(STR_VALUES) + str(rng.randint(0, 99))
        v = v.reshape(shape)
    else:
        ids = rng.sample(range(1, 30000), n)
        v = np.array(ids, dtype={'f': float, 'fn': float, 'i': np.int64, 'i4': np.int32}[vkind]).reshape(shape)
        if vkind == 'fn' and n:
            flat = v.reshape(-1)
            for i in range(n):
                if rng.random() < 0.3:
                    flat[i] = np.nan
    attrs = rand_attrs(rng)
    if vkind != 's' and rng.random() < 0.25:
        # CF-style missing value marker (never present in the data here): becomes the variable's fill value on disk
        attrs["missing_value"] = -999.5 if vkind in ('f', 'fn') else -999
    return {"dims": list(dims), "labels": [list(axes[d][0]) for d in dims], "kinds": [axes[d][1] for d in dims], "values": v,
            "vkind": vkind, "attrs": attrs}


def gen_axes(rng, dims, fmt, maxsize=4, minsize=1):
    axes = {}
    for d in dims:
        k = rng.choice('ifs') if fmt == 'NETCDF4' else rng.choice('if')
        axes[d] = (gen.labels(rng, rng.randint(minsize, maxsize), k, rng.choice(['inc', 'dec', 'shuf'])), k, rand_attrs(rng, "ax_"))
    return axes


def gen_dataset(rng, fmt, nvars=None, dims=None, axes=None, names=None):
    dims = dims or rng.sample(gen.DIMS, rng.randint(1, 3))
    axes = axes or gen_axes(rng, dims, fmt)
    nvars = rng.randint(0, 4) if nvars is None else nvars
    names = names or rng.sample(['a', 'b', 'c', 'd', 'e'], nvars)
    vs = {}
    for k in names:
        vd = rng.sample(dims, rng.randint(0, len(dims)))
        vs[k] = gen_var(rng, axes, vd, fmt)
    # 30 %: the dataset's axes are declared up front, in an order of their own (not the order in which the variables first use
    # them), some possibly used by no variable
    return {"dims": list(dims), "axes": axes, "vars": vs, "attrs": rand_attrs(rng, "g_"), "predeclare": rng.random() < 0.3}


def build_array(sp, axes=None):
    da = __import__("vp.boot", fromlist=["boot"]).boot()
    ax = []
    for d, lab, k in zip(sp["dims"], sp["labels"], sp["kinds"]):
        a = da.Axis(gen.np_labels(lab, k), d)
        if axes is not None and d in axes:
            a.attrs.update(axes[d][2])
        ax.append(a)
    arr = da.DimArray(np.array(sp["values"], copy=True), axes=ax)
    arr.attrs.update(sp.get("attrs", {}))
    return arr


def build_dataset(dsp):
    da = __import__("vp.boot", fromlist=["boot"]).boot()
    ds = da.Dataset()
    if dsp.get("predeclare"):
        for d in dsp["dims"]:
            lab, kind, at = dsp["axes"][d]
            ax = da.Axis(gen.np_labels(lab, kind), d)
            ax.attrs.update(at)
            ds.axes.append(ax)
    for k, sp in dsp["vars"].items():
        ds[k] = build_array(sp, dsp["axes"])
    ds.attrs.update(dsp["attrs"])
    return ds


class FileModel(object):
    """everything written so far: the oracle for 'no loss, no resurrection'"""

    def __init__(self, fmt):
        self.fmt = fmt
        self.dims = []          # creation order
        self.axes = {}          # dim -> (labels, kind, attrs)
        self.vars = {}          # name -> (MA, attrs, kindclass)
        self.attrs = {}

    def add_axis(self, d, labels, kind, attrs):
        if d not in self.axes:
            self.dims.append(d)
            self.axes[d] = (list(labels), kind, dict(attrs))

    def add_var(self, name, sp, axes=None):
        for d, l, k in zip(sp["dims"], sp["labels"], sp["kinds"]):
            self.add_axis(d, l, k, (axes or {}).get(d, (None, None, {}))[2])
        v = np.array(sp["values"], copy=True)
        kc = model.KIND_CLASS[v.dtype.kind]
        old = self.vars.get(name)
        attrs = dict(old[1]) if old else {}
        attrs.update(sp.get("attrs", {}))
        self.vars[name] = (model.MA(v, sp["dims"], sp["labels"]), attrs, kc)

    def write_dataset(self, dsp):
        used = []
        for sp in dsp["vars"].values():
            for d in sp["dims"]:
                if d not in used:
                    used.append(d)
        if dsp.get("predeclare"):
            used = list(dsp["dims"])        # all of them, in the declared order
        for d in used:      # Dataset.write_nc writes the dataset's axes first, in the dataset's order
            l, k, at = dsp["axes"][d]
            self.add_axis(d, l, k, at)
        for name, sp in dsp["vars"].items():
            self.add_var(name, sp, dsp["axes"])
        self.attrs.update(dsp["attrs"])


def attrs_equal(got, exp):
    """compare attribute dicts by value (lists come back as ndarrays, numbers as numpy scalars)"""
    if "missing_value" in exp and "_FillValue" in got and "_FillValue" not in exp:
        got = {k: v for k, v in got.items() if k != "_FillValue"}      # the library turns missing_value into the on-disk fill value
    if set(got.keys()) != set(exp.keys()):
        return "attribute names %r, expected %r" % (sorted(got.keys()), sorted(exp.keys()))
    for k, e in exp.items():
        g = got[k]
        if isinstance(e, str):
            if not (isinstance(g, str) and g == e):
                return "attribute %r is %r, expected %r" % (k, g, e)
        elif isinstance(e, (list, tuple)):
            if not (np.ndim(g) == 1 and np.array_equal(np.asarray(g), np.asarray(e))):
                return "attribute %r is %r, expected %r" % (k, g, e)
        else:
            if isinstance(g, str) or np.ndim(g) != 0 or not (g == e):
                return "attribute %r is %r, expected %r" % (k, g, e)
    return None


def compare_var(ctx, prop, key, label, got, fm, name, check_attrs=True):
    exp, attrs, kc = fm.vars[name]
    if exp.ndim and not common.is_da(got):
        ctx.v(prop, key + ":type", "%s: variable %r read back as %s" % (label, name, type(got).__name__))
        return False
    g = common.as_ma(got)
    msg = model.compare(g, exp, "%s: variable %r" % (label, name))
    if msg:
        ctx.v(prop, key + ":values", msg)
        return False
    gk = model.KIND_CLASS.get(g.values.dtype.kind)
    if gk != kc:
        ctx.v(prop, key + ":dtype-kind", "%s: variable %r has dtype %s (%s), written as %s" % (label, name, g.values.dtype, gk, kc))
        return False
    if common.is_da(got):
        for d, lg in zip(g.dims, g.labels):
            ek = fm.axes[d][1]
            gkk = got.axes[d].values.dtype.kind
            if model.KIND_CLASS.get(gkk) != {'i': 'int', 'f': 'float', 's': 'str'}[ek] and len(lg):
                ctx.v(prop, key + ":label-kind", "%s: labels of %r read back as dtype %s, written as %r" % (label, d, got.axes[d].values.dtype, ek))
                return False
            if check_attrs:
                m = attrs_equal(dict(got.axes[d].attrs), fm.axes[d][2])
                if m:
                    ctx.v(prop, key + ":axis-attrs", "%s: axis %r of variable %r: %s" % (label, d, name, m))
                    return False
        if check_attrs:
            m = attrs_equal(dict(got.attrs), attrs)
            if m:
                ctx.v(prop, key + ":var-attrs", "%s: variable %r: %s" % (label, name, m))
                return False
    return True


def compare_dataset(ctx, prop, key, label, got, fm, names=None):
    if not common.is_ds(got):
        ctx.v(prop, key + ":type", "%s returned %s" % (label, type(got).__name__))
        return False
    whole = names is None
    names = list(fm.vars) if names is None else list(names)
    if sorted(got.keys()) != sorted(names):
        ctx.v(prop, key + ":keys", "%s: variables %r, expected %r" % (label, sorted(got.keys()), sorted(names)))
        return False
    ok = True
    for n in names:
        ok = compare_var(ctx, prop, key, label, dict.__getitem__(got, n), fm, n) and ok
    used = [d for d in fm.dims if any(d in fm.vars[n][0].dims for n in names)]
    exp_dims = used if names != list(fm.vars) or True else fm.dims
    if set(got.dims) - set(fm.dims) or not set(used) <= set(got.dims):
        ctx.v(prop, key + ":dims", "%s: dataset dims %r, expected %r" % (label, tuple(got.dims), tuple(exp_dims)))
        ok = False
    if ok and whole and [d for d in got.dims if d in fm.dims] != [d for d in fm.dims if d in got.dims]:
        # "reading it back yields equal data": a Dataset's axes are an ordered list (Dataset.__eq__ compares them in order);
        # the file keeps the order in which the dimensions were created
        ctx.v(prop, key + ":dims-order", "%s: dataset dims %r, the dimensions were written in the order %r" % (label, tuple(got.dims), tuple(fm.dims)))
        ok = False
    m = attrs_equal(dict(got.attrs), fm.attrs)
    if m:
        ctx.v(prop, key + ":ds-attrs", "%s: dataset %s" % (label, m))
        ok = False
    return ok


class Tmp(object):
    def __enter__(self):
        self.d = tempfile.mkdtemp(prefix="vp-nc-")
        return self.d

    def __exit__(self, *a):
        shutil.rmtree(self.d, ignore_errors=True)


def run_under_quirks(prop, case, ctx, body):
    """run body(case, subctx, tmpdir) under the default quirks; a violation of `prop` is reported only
    if it reproduces (same key) under every quirk combination, else counted as model-dependent"""
    import netCDF4
    results = []
    try:
        set_quirks(QUIRK_COMBOS[0])
        sub = monitors.Ctx()
        sub.relaxed, sub.outcomes = ctx.relaxed, ctx.outcomes
        with Tmp() as d:
            klass = body(case, sub, d)
        own = [v for v in sub.viol if v["property"] == prop]
        other = [v for v in sub.viol if v["property"] != prop]
        ctx.log.extend(sub.log[:40])
        ctx.viol.extend(other)
        if own:
            keys = set(v["key"] for v in own)
            import collections
            silent = collections.Counter()
            for q in QUIRK_COMBOS[1:]:
                set_quirks(q)
                s2 = monitors.Ctx()
                s2.relaxed, s2.outcomes = collections.Counter(), collections.Counter()
                try:
                    with Tmp() as d:
                        body(case, s2, d)
                except Exception:
                    pass
                k2 = set(v["key"] for v in s2.viol if v["property"] == prop)
                keys &= k2
            for v in own:
                if v["key"] in keys:
                    ctx.viol.append(v)
                else:
                    ctx.relaxed['model-dependent:' + v["key"]] += 1
        return klass
    finally:
        set_quirks(QUIRK_COMBOS[0])
