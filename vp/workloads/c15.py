"""C15 - operations do not modify their operands; copies are independent.

M-IMM: deep snapshots (values bytes + dtype, dims, labels + dtype, axis attrs, array attrs incl.
mutable values, cached grouped labels) of every operand and of bystanders that share Axis
objects with an operand, before and after every non-in-place public operation.  The dedicated
workload sweeps a catalogue of ~100 operation variants per generated operand set; guest shards
re-run the C01-C18 workloads with M-IMM deciding."""
import os
import tempfile
import numpy as np
from .. import gen, model, codec, monitors
from . import common

ID = "C15"
LEVEL = "exploration"
RULE = ("operand sets: a (3-d, every axis unsorted, metadata with mutable values at array and axis level), b (shares one dim with a, other "
        "label order, extra dim), bystanders sharing Axis objects with a (transpose, squeeze, full-slice view, Dataset holding a); every "
        "entry of a catalogue of ~100 non-in-place operation variants (indexing, put(inplace=False), arithmetic, comparisons, reductions, "
        "reshaping, reindexing, align with/without sort and join, sort_axis, interpolation, stack/concatenate with align+sort, to_json, "
        "write_nc, Dataset construction / insertion / operations); copy() independence under every kind of in-place change. "
        "class = operation name (+ label kinds); trivial = none. Guest shards: C01-C18 workloads")
ANCHORS = ["dimarraycls.copy", "align._get_aligned_axes", "reshape.reshape", "operation.operation", "dataset.__setitem__"]
# entry points the workload calls itself; the other anchors are helpers behind them (counted as evidence only)
ANCHORS_REQUIRED = ["dimarraycls.copy", "reshape.reshape", "dataset.__setitem__"]
FLOORS = {"quick": {"evaluations": 300, "distinct": 90, "event:imm_operand_checks": 100000, "outcome:catalogue-ops": 15000, "outcome:copy-mutations": 1500},
          "thorough": {"evaluations": 5000, "distinct": 100}}
GUESTS = [("c01", 0.1), ("c02", 0.03), ("c03", 0.1), ("c04", 0.15), ("c06", 0.25), ("c07", 0.1), ("c08", 0.1), ("c09", 0.1), ("c10", 0.1),
          ("c11", 0.1), ("c12", 0.2), ("c13", 0.1), ("c14", 0.15), ("c16", 0.05), ("c17", 0.1), ("c18", 0.1)]


def shards(tier, seed, scale=1.0):
    return common.rand_shards(ID, tier, seed, scale, 480, 12000)


def cases(desc):
    rng = common.rng_for(ID, desc)
    for i in range(desc["n"]):
        kinds = [rng.choice('ifs'), rng.choice('if'), rng.choice('ifs')]
        sizes = [rng.randint(2, 3), rng.randint(3, 4), rng.randint(1, 3)]
        dims = rng.sample(gen.DIMS[:4], 3)
        a = gen.spec(rng, dims=dims, sizes=sizes, kinds=kinds, orders='shuf', dtype='f')
        # make sure every axis with >= 3 labels is really unsorted
        for l in a["labels"]:
            if len(l) >= 3 and model.strict_dir(l) is not None:
                l[0], l[1] = l[1], l[0]
                if model.strict_dir(l) is not None:
                    l[-1], l[-2] = l[-2], l[-1]
        if rng.random() < 0.4:
            v = a["values"]
            v[np.array([rng.random() < 0.2 for _ in range(v.size)]).reshape(v.shape)] = np.nan
        yd = dims[1]
        yl = list(a["labels"][1])
        rng.shuffle(yl)
        yl = yl[:-1] + [gen.absent_label(rng, yl, kinds[1])]
        b = {"dims": [yd, 't'], "labels": [yl, gen.labels(rng, 2, 'i', 'dec')], "kinds": [kinds[1], 'i']}
        b["values"] = gen.values(rng, (len(yl), 2), 'f')
        yield {"a": a, "b": b, "pick": rng.randrange(10 ** 6)}


def deco(arr):
    """mutable metadata values at array and axis level"""
    arr.attrs.update({'m': {'k': [1]}, 'lst': [1, 2]})
    for ax in arr.axes:
        ax.attrs['am'] = [1, 2]
    return arr


def catalogue(da, a, b, t, sq, v, ds, tmpdir, cn, extra=None, lab3=None, jd=None, cg=None, xn=None):
    x, y, z = a.dims
    ya = a.axes[y].values
    y0 = ya[0]
    ylo, yhi = float(min(ya)), float(max(ya))
    ops = {
        'getitem-list': lambda: a.take([y0], axis=y), 'getitem-scalar': lambda: a.take(y0, axis=y), 'getitem-mask': lambda: a.take(ya != y0, axis=y),
        'getitem-tuple': lambda: a[a.axes[x].values[0]], 'ix': lambda: a.ix[0], 'iloc-slice': lambda: a.iloc[:, ::-1], 'loc-dict': lambda: a.loc[{y: [y0]}],
        'sel': lambda: a.sel(**{y: y0}), 'nloc': lambda: a.nloc[{y: y0}], 'ndmask': lambda: a[a.values > 100],
        'put-notinplace': lambda: a.put({y: y0}, 5., inplace=False), 'put-cast': lambda: a.put({y: y0}, 'txt', cast=True, inplace=False),
        'add': lambda: a + b, 'radd': lambda: b * a, 'sub-self-T': lambda: a - t, 'add-scalar': lambda: a + 1, 'rdiv-scalar': lambda: 2 / a,
        'pow': lambda: a ** 2, 'np-scalar-left': lambda: np.float64(2) - a, 'add-ndarray': lambda: a + a.values,
        'cmp-gt': lambda: a > 3, 'and': lambda: (a > 3) & (a < 2000), 'or': lambda: (a > 3) | (a < 2), 'pos': lambda: +a, 'invert': lambda: ~(a > 3),
        'iter-values': lambda: [v_ for v_ in a], 'contains': lambda: 3.0 in a, 'float-0d': lambda: float(a.take(y0, axis=y).ix[0, 0]), 'eq': lambda: a == a, 'ne': lambda: a != b, 'eq-other': lambda: a == b, 'neg': lambda: -a, 'le': lambda: a <= a.values,
        'mean': lambda: a.mean(axis=y), 'sum-tuple': lambda: a.sum(axis=(y, z)), 'median': lambda: a.median(axis=0), 'std-skipna': lambda: a.std(axis=y, skipna=True),
        'max-none': lambda: a.max(), 'ptp': lambda: a.ptp(axis=1), 'all': lambda: (a > 0).all(axis=z), 'percentile': lambda: da.percentile(a, [50, 75], axis=y),
        'cumsum': lambda: a.cumsum(axis=1), 'cumprod-default': lambda: a.cumprod(), 'diff-keepaxis': lambda: a.diff(axis=y, keepaxis=True),
        'diff-centered': lambda: a.diff(axis=y, scheme='centered'), 'argmax-axis': lambda: a.argmax(axis=y), 'argmin-whole': lambda: a.argmin(),
        'transpose': lambda: a.transpose(z, x, y), 'T-2d': lambda: a.take(y0, axis=y).T, 'swapaxes': lambda: a.swapaxes(0, 2), 'rollaxis': lambda: a.rollaxis(y),
        'newaxis-values': lambda: a.newaxis('k', values=[1, 2]), 'squeeze': lambda: a.newaxis('k').squeeze(), 'repeat': lambda: a.newaxis('k').repeat(3, axis='k'),
        'flatten': lambda: a.flatten((z, x)), 'flatten-all-labels': lambda: a.flatten().labels, 'flatten-unflatten': lambda: a.flatten((z, x), insert=0).unflatten(),
        'reshape-group': lambda: a.reshape(y, x + ',' + z), 'reshape-ungroup': lambda: a.flatten((x, z), insert=0).reshape(z, y, x),
        'reshape-newdim': lambda: a.reshape(x, 'nn', y, z), 'reshape-same': lambda: a.reshape(x, y, z),
        'broadcast': lambda: a.broadcast([da.Axis([1, 2], 'k')] + list(a.axes)), 'broadcast-b': lambda: b.broadcast(list(a.axes[:1]) + list(b.axes)),
        'broadcast_arrays': lambda: da.broadcast_arrays(a, a.mean(axis=y)),
        'reindex': lambda: a.reindex_axis([y0, ya[1], ya[1] + 99], axis=y), 'reindex-Axis': lambda: a.reindex_axis(b.axes[y]),
        'reindex-method': lambda: a.reindex_axis([ylo - 1, yhi + 1], axis=y, method='left'), 'reindex_like': lambda: a.reindex_like(b),
        'align': lambda: da.align([a, b]), 'align-sort': lambda: da.align([a, b], sort=True), 'align-inner-sort': lambda: da.align([a, b], join='inner', sort=True),
        'align-sort-single-dim': lambda: da.align([a, a.mean(axis=y)], sort=True), 'align-axis': lambda: da.align((b, a), axis=y, sort=True),
        'align-three': lambda: da.align([a, b, t], sort=True), 'align-self': lambda: da.align([a, a], sort=True),
        # a partner that is empty along a shared dimension: the union may be the other input's own Axis object
        'align-sort-empty-partner': lambda: da.align([a, a.take(np.zeros(len(ya), dtype=bool), axis=y)], sort=True),
        'align-sort-empty-partner-first': lambda: da.align([a.take(np.zeros(len(ya), dtype=bool), axis=y), a], sort=True),
        'align-sort-empty-partner-axis': lambda: da.align([b, a.take(np.zeros(len(ya), dtype=bool), axis=y), a], sort=True, axis=y),
        'concat-align-sort-empty-partner': lambda: da.concatenate([a, a.take(np.zeros(len(ya), dtype=bool), axis=y)], axis=x, align=True, sort=True),
        'stack-align-sort-empty-partner': lambda: da.stack([a, a.take(np.zeros(len(ya), dtype=bool), axis=y)], axis='s', align=True, sort=True),
        'add-empty-partner': lambda: a + a.take(np.zeros(len(ya), dtype=bool), axis=y),
        'sort_axis': lambda: a.sort_axis(axis=y), 'sort_axis-key': lambda: a.sort_axis(axis=y, key=lambda q: -q), 'sort_axis-default': lambda: a.sort_axis(),
        'interp': lambda: a.interp_axis([ylo, (ylo + yhi) / 2, yhi + 1], axis=y), 'interp_like': lambda: a.interp_like(b),
        'stack': lambda: da.stack([a, a * 2], axis='s'), 'stack-dict': lambda: da.stack({'p': a, 'q': a}, axis='s'),
        'stack-align-sort': lambda: da.stack([a, a.sort_axis(axis=y)], axis='s', align=True, sort=True),
        'stack-T': lambda: da.stack([a, t], axis='s'),
        'concat': lambda: da.concatenate([a, a], axis=y), 'concat-align-sort': lambda: da.concatenate([a, a.sort_axis(axis=z)], axis=y, align=True, sort=True),
        'concat-T': lambda: da.concatenate([a, t], axis=0),
        'dropna': lambda: a.dropna(axis=y), 'dropna-minvalid': lambda: a.dropna(axis=z, minvalid=1), 'fillna': lambda: a.fillna(0), 'setna': lambda: a.setna(a.values[0, 0, 0]),
        'to_json': lambda: a.to_json(), 'to_jsondict': lambda: a.to_jsondict(), 'from_json-roundtrip': lambda: da.DimArray.from_json(a.to_json()),
        'Dataset()': lambda: da.Dataset(a=a, b=b), 'Dataset-insert': lambda: da.Dataset().__setitem__('a', a), 'to_dataset': lambda: a.to_dataset(axis=x),
        # constructors fed with an existing array / its Axes object (with and without other names)
        'ctor-from-dimarray': lambda: da.DimArray(a), 'ctor-from-dimarray-dims': lambda: da.DimArray(a, dims=['p9', 'q9', 'r9']),
        'ctor-axes-object': lambda: da.DimArray(a.values, axes=a.axes), 'ctor-axes-object-dims': lambda: da.DimArray(a.values, axes=a.axes, dims=['p9', 'q9', 'r9']),
        'ctor-axes-list': lambda: da.DimArray(a.values, axes=list(a.axes)), 'ctor-axes-list-dims': lambda: da.DimArray(a.values, axes=list(a.axes), dims=['p9', 'q9', 'r9']),
        'ctor-copy-false': lambda: da.DimArray(a.values, axes=list(a.axes), copy=False), 'array-from-dimarray': lambda: da.array(a, dims=['p9', 'q9', 'r9']),
        'from_nested': lambda: da.DimArray.from_nested([a, a], dims=['n9', 'p9', 'q9', 'r9']), 'Dataset-from-dict': lambda: da.Dataset({'k1': a, 'k2': t}),
        'apply': lambda: a.apply(np.sqrt), 'take_axis': lambda: a.take_axis([0, 0], axis=y, indexing='position'), 'compress_axis': lambda: a.compress_axis(ya != y0, axis=y),
        'iter': lambda: list(a.iter(y)), 'to_list': lambda: a.to_list(), 'array()': lambda: da.array([a, b]), 'to_MaskedArray': lambda: a.to_MaskedArray(),
        'np.asarray': lambda: np.asarray(a) + 1, 'repr': lambda: (repr(a), str(a), repr(a.axes)), 'labels': lambda: (a.labels, a.dims, a.shape),
        'transposed-ops': lambda: (t + 1, t.mean(axis=y), t.sort_axis(axis=y), t.flatten()), 'squeezed-ops': lambda: sq.sort_axis(axis=y), 'view-ops': lambda: (v * 2, v.sort_axis(axis=y)),
        'set_axis-copy': lambda: a.set_axis(list(range(len(ya))), axis=y, inplace=False), 'set_axis-name-copy': lambda: a.set_axis(name='renamed', axis=y, inplace=False),
        'ds-take': lambda: ds.take(indices={y: y0}), 'ds-mean': lambda: ds.mean(axis=y), 'ds-sort_axis': lambda: ds.sort_axis(axis=y),
        'ds-reindex': lambda: ds.reindex_axis(list(ds.axes[y].values[::-1]) + [ylo - 7], axis=y), 'ds-add': lambda: ds + ds, 'ds-mul': lambda: ds * 2, 'ds-neg': lambda: -ds,
        'ds-copy': lambda: ds.copy(), 'stack_ds': lambda: da.stack_ds([ds, ds], axis='s'), 'concat_ds': lambda: da.concatenate_ds([ds, ds], axis=y),
        'ds-interp': lambda: ds.interp_axis([ylo + 0.5], axis=y), 'ds-take_axis': lambda: ds.take_axis([ds.axes[y].values[0]], axis=y),
        'ds-to_array': lambda: ds.to_array(), 'ds-rename_keys-copy': lambda: ds.rename_keys({'a': 'z9'}, inplace=False),
        'ds-rename_axes-copy': lambda: ds.rename_axes({y: 'yy'}, inplace=False), 'ds-set_axis-copy': lambda: ds.set_axis(name='yy', axis=y, inplace=False),
        'ds-align': lambda: da.align([ds, b], sort=True), 'ds-reindex_like': lambda: ds.reindex_like(b),
    }
    # a plain (not grouped) axis whose name contains a comma: reshape() supports it through a temporary ',' -> ';' renaming
    cx = cn.dims[0]
    ops.update({
        'commaname-reshape-newdim': lambda: cn.reshape(cx, 'nn', y, z), 'commaname-reshape-permute': lambda: cn.reshape(z, cx, y),
        'commaname-reshape-group': lambda: cn.reshape(cx, y + ',' + z), 'commaname-reshape-refused': lambda: cn.reshape(y, cx, z, transpose=False),
        'commaname-reshape-drop-refused': lambda: cn.reshape(y, z), 'commaname-regroup': lambda: cn.flatten((y, z)).reshape(z, cx, y),
        'commaname-transpose': lambda: cn.transpose(z, y, cx), 'commaname-mean': lambda: cn.mean(axis=cx), 'commaname-add': lambda: cn + cn.mean(axis=y),
    })
    if cg is not None:
        # ... and the same array with its other dimensions grouped (a grouped axis next to the plain comma-named one)
        w9 = da.DimArray([1., 10.], axes=[('member9', ['m2', 'm1'])])
        ops.update({
            'commagrouped-mul-newdim': lambda: cg * w9, 'commagrouped-rmul-newdim': lambda: w9 * cg,
            'commagrouped-reshape-newdim': lambda: cg.reshape(y, z, cx, 'nn'), 'commagrouped-reshape-ungroup': lambda: cg.reshape(cx, y, z),
            'commagrouped-reshape-refused': lambda: cg.reshape(y, cx, z, transpose=False), 'commagrouped-unflatten': lambda: cg.unflatten(),
            'commagrouped-mean': lambda: cg.mean(axis=0), 'commagrouped-T': lambda: cg.T, 'commagrouped-align_dims': lambda: da.broadcast_arrays(cg, w9),
        })
    if xn is not None:
        # an operand that already carries an unlabelled (None) singleton dimension, met by a target that labels it
        tn = [da.Axis([5], 'nn9')] + [ax.copy() for ax in list(xn.axes)[1:]]
        yn = da.DimArray(np.zeros([ax.size for ax in tn]), axes=[ax.copy() for ax in tn])
        ops.update({
            'nonesingleton-broadcast-axes': lambda: xn.broadcast(tn), 'nonesingleton-broadcast-array': lambda: xn.broadcast(yn),
            'nonesingleton-broadcast_arrays': lambda: da.broadcast_arrays(yn, xn), 'nonesingleton-add': lambda: xn + yn,
            'nonesingleton-align': lambda: da.align([xn, yn]), 'nonesingleton-squeeze': lambda: xn.squeeze('nn9'),
        })
    # rarely used call forms
    ops.update({
        'ds-reduce_axis-direct': lambda: ds.reduce_axis(np.sum, axis=z), 'ds-reduce_axis-keepdims': lambda: ds.reduce_axis(np.cumsum, axis=y, keepdims=True),
        'ds-reduce_axis-keepattrs': lambda: ds.reduce_axis(np.sum, axis=y, keepattrs=True),
        'set_axis-attrs-copy': lambda: a.set_axis(axis=y, attrs={'replaced': 1}, inplace=False), 'set_axis-kw-copy': lambda: a.set_axis(axis=y, units='m', inplace=False),
        'set_axis-dict-copy': lambda: a.set_axis({y0: 12345}, axis=y, inplace=False), 'set_axis-callable-copy': lambda: a.set_axis(lambda q: q, axis=-2, inplace=False),
        'Axis.set-copy': lambda: a.axes[y].set(values=list(range(len(ya))), attrs={'replaced': 2}, inplace=False),
        'ds-set_axis-attrs-copy': lambda: ds.set_axis(axis=y, attrs={'replaced': 3}, inplace=False),
        'take-negative-axis': lambda: a.take([y0], axis=-2), 'reindex-negative-axis': lambda: a.reindex_axis([y0, ya[1] + 99], axis=-2),
        'from_jsondict': lambda: da.DimArray.from_jsondict(jd), 'from_jsondict-again': lambda: da.DimArray.from_jsondict(jd),
    })
    # index arrays, masks and right-hand sides are "arrays passed to it" too (they are among the watched operands)
    negp, mask3, rhs3 = extra
    ops.update({
        'arg-negative-positions-ix': lambda: a.ix[negp], 'arg-negative-positions-take': lambda: a.take(negp, axis=y, indexing='position'),
        'arg-negative-positions-put': lambda: a.put(negp, 1.5, axis=y, indexing='position', inplace=False),
        'arg-mask-setna-first': lambda: a.setna([mask3, a.values[0, 0, 0]]), 'arg-mask-setna-last': lambda: a.setna([a.values[0, 0, 0], mask3]),
        'arg-mask-index': lambda: a[mask3], 'arg-mask-put': lambda: a.put(mask3, 0., inplace=False), 'arg-rhs-put': lambda: a.put({y: y0}, rhs3, inplace=False),
        'arg-labels-reindex': lambda: a.reindex_axis(lab3, axis=y), 'arg-labels-take': lambda: a.take(lab3, axis=y),
        'arg-labels-interp': lambda: a.interp_axis(lab3.astype(float), axis=y) if lab3.dtype.kind in 'if' else None,
    })
    if getattr(da, '_ncio', False) and tmpdir:
        ops['write_nc'] = lambda: a.write_nc(os.path.join(tmpdir, 'imm.nc'), 'a')
        ops['ds-write_nc'] = lambda: ds.write_nc(os.path.join(tmpdir, 'imm2.nc'))
        ops['write_nc-append'] = lambda: (a.write_nc(os.path.join(tmpdir, 'imm3.nc'), 'a'), b.write_nc(os.path.join(tmpdir, 'imm3.nc'), 'b', mode='a'))
    return ops


def check(case, ctx):
    import random
    da = __import__("vp.boot", fromlist=["boot"]).boot()
    rng = random.Random(case["pick"])
    a = deco(gen.build(case["a"], meta=False))
    b = deco(gen.build(case["b"], meta=False))
    x, y, z = a.dims
    t = a.transpose(z, y, x)
    sq = a.newaxis('n').squeeze()
    v = a[:]
    ds = da.Dataset()
    ds['a'] = a
    ds['b'] = b.take(0, axis='t', indexing='position').reindex_axis(a.axes[y]) if False else a.mean(axis=z)
    ds['c'] = deco(a.mean(axis=y))          # a variable without y, with metadata
    ds.attrs['dm'] = {'q': [1]}
    tmpdir = tempfile.mkdtemp(prefix="vp-c15-") if getattr(da, '_ncio', False) else None
    try:
        cn = deco(gen.build(case["a"], meta=False))
        cn.axes[0].name = 'p,q'
        negp = np.array([-1, 0], dtype=np.int64)
        mask3 = np.array(a.values > np.nanmedian(a.values))
        rhs3 = np.arange(float(a.shape[0] * a.shape[2])).reshape(a.shape[0], a.shape[2])
        lab3 = np.array(a.axes[y].values[::-1], copy=True)
        jd = a.to_jsondict()
        cg = cn.flatten((cn.dims[1], cn.dims[2]))
        xn = deco(a.newaxis('nn9', pos=0))
        ops = catalogue(da, a, b, t, sq, v, ds, tmpdir, cn, extra=(negp, mask3, rhs3), lab3=lab3, jd=jd, cg=cg, xn=xn)
        watched = (a, b, t, sq, v, ds, cn, negp, mask3, rhs3, lab3, jd, cg, xn)
        names = list(ops)
        classes = []
        for name in names:
            label = "%s [a dims=%r labels=%s]" % (name, a.dims, codec.short([ax.values.tolist() for ax in a.axes], 120))
            res, exc = ctx.call(label, ops[name], operands=watched)
            ctx.outcomes['catalogue-ops'] += 1
            if exc is not None:
                ctx.outcomes['catalogue-op-raised'] += 1
                ctx.outcomes['raised:' + name] += 1
            classes.append(name)
    finally:
        if tmpdir:
            import shutil
            shutil.rmtree(tmpdir, ignore_errors=True)
    # ---- an array passed to ds[k] = a (or Dataset(a=a)) is not reachable through later in-place edits of the dataset
    for form in ('setitem', 'ctor'):
        src2 = deco(gen.build(case["a"], meta=False))
        s0 = monitors.snapshot(src2)
        if form == 'setitem':
            d2 = da.Dataset()
            d2['v'] = src2
        else:
            d2 = da.Dataset(v=src2)
        x2, y2, z2 = src2.dims
        edits = [("ds.set_axis(values)", lambda: d2.set_axis(list(range(100, 100 + d2.axes[y2].size)), axis=y2)),
                 ("ds.axes[d][0] = label", lambda: d2.axes[z2].__setitem__(0, d2.axes[z2].values[0] + 1000)),
                 ("ds.axes[d].attrs", lambda: d2.axes[y2].attrs.__setitem__('note', 'n')),
                 ("ds.rename_axes", lambda: d2.rename_axes({x2: 'xx9'})),
                 ("ds.dims = ...", lambda: setattr(d2, 'dims', tuple(q + '_r' for q in d2.dims))),
                 ("ds[k].values[...] = 0", lambda: dict.__getitem__(d2, 'v').values.__setitem__(Ellipsis, 0) if False else None),
                 ("ds.set_axis(inplace=False)", lambda: d2.set_axis(list(range(500, 500 + d2.axes[1].size)), axis=1, inplace=False))]
        for ename, fn in edits:
            try:
                fn()
            except Exception:
                ctx.outcomes['dataset-edit-raised'] += 1
            ctx.outcomes['dataset-edits-after-insertion'] += 1
            monitors.COUNTS['imm_operand_checks'] += 1
            s1 = monitors.snapshot(src2)
            if s1 != s0:
                ctx.v(ID, "inserted-array-changed-by-dataset-edit:%s:%s" % (form, ename),
                      "after %s the in-place dataset edit %s changed the array that was passed in: %s" % (
                          "ds['v'] = a" if form == 'setitem' else "Dataset(v=a)", ename, monitors.describe_diff(s0, s1)))
                break
    # ---- copy() is deep, both ways
    src = deco(gen.build(case["a"], meta=False))
    for direction in ('copy->orig', 'orig->copy'):
        o = deco(gen.build(case["a"], meta=False))
        c = o.copy()
        tgt, other = (c, o) if direction == 'copy->orig' else (o, c)
        s0 = monitors.snapshot(other)
        muts = [("values[...]=-1", lambda: tgt.values.__setitem__(Ellipsis, -1)),
                ("values setter", lambda: setattr(tgt, 'values', tgt.values * 0 + 5)),
                ("setitem", lambda: tgt.ix.__setitem__(0, 9.0)),
                ("axes[y][0]=label", lambda: tgt.axes[y].__setitem__(0, tgt.axes[y].values[0] + 1000)),
                ("axis name", lambda: setattr(tgt.axes[x], 'name', 'q')),
                ("attrs[k]=v", lambda: tgt.attrs.__setitem__('new', 1)),
                ("mutable attrs value", lambda: tgt.attrs['m']['k'].append(2)),
                ("attrs list", lambda: tgt.attrs['lst'].append(3)),
                ("axis attrs", lambda: tgt.axes[y].attrs['am'].append(3)),
                ("axis attrs new", lambda: tgt.axes[z].attrs.__setitem__('u', 'm')),
                ("set_axis", lambda: tgt.set_axis(list(range(tgt.axes[z].size)), axis=z)),
                ("dim attribute", lambda: setattr(tgt, y, [v_ + 5 for v_ in tgt.axes[y].values.tolist()])),
                ("axes.sort", lambda: tgt.axes[y].sort()),
                ("put inplace cast", lambda: tgt.put({z: tgt.axes[z].values[0]}, 'txt', cast=True, inplace=True))]
        for mname, fn in muts:
            try:
                fn()
            except Exception as e:
                ctx.outcomes['copy-mutation-raised'] += 1
            ctx.outcomes['copy-mutations'] += 1
            s1 = monitors.snapshot(other)
            if s1 != s0:
                ctx.v(ID, "copy-not-independent:%s:%s" % (direction, mname), "after c = a.copy(), %s on the %s changed the %s: %s" % (
                    mname, 'copy' if tgt is c else 'original', 'original' if tgt is c else 'copy', monitors.describe_diff(s0, s1)))
                break
    kinds = "".join(case["a"]["kinds"])
    return [(n, kinds) for n in classes[:200:7]] + [('copy', kinds)]
