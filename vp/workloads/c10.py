"""C10 - rearranging dimensions preserves every element's label coordinates.

Oracle = the coordinate map (model.check_coordmap) + requested arrangement of dims + labels
travelling with their axis.  For each generated array a whole family of variants is enumerated
(all permutations, all axis pairs, all (axis,start), all insert positions, all target orders)."""
import itertools
from collections import OrderedDict
import numpy as np
from .. import gen, model, codec
from . import common

ID = "C10"
LEVEL = "exploration"
RULE = ("arrays of 0-4 dims whose label sets are disjoint across dimensions (a label identifies its dimension), in two shape regimes: "
        "pairwise different lengths, and equal lengths / square (a mix-up is shape-compatible and only labels betray it); per array one "
        "family, enumerated completely: transpose (all permutations x name/position/mixed, variadic or list), T, swapaxes (all pairs), "
        "rollaxis (all axis,start), newaxis (all positions, with/without values), squeeze (None/name/pos), repeat (int/list/ndarray/Axis), "
        "broadcast (all orders of own + 0-2 foreign axes, as list/DimArray/OrderedDict), broadcast_arrays, round-trip compositions. "
        "broadcast also onto a target lacking one of several singleton dimensions. class = (family, ndim, regime, kinds); trivial = 0-d array")
ANCHORS = ["reshape.transpose", "reshape.swapaxes", "reshape.rollaxis", "reshape.repeat", "reshape.newaxis", "reshape.squeeze",
           "reshape.broadcast", "align.broadcast_arrays", "align.align_dims", "bases._get_axes_info"]
# entry points the workload calls itself; the other anchors are helpers behind them (counted as evidence only)
ANCHORS_REQUIRED = ["reshape.transpose", "reshape.swapaxes", "reshape.rollaxis", "reshape.repeat", "reshape.newaxis", "reshape.squeeze", "reshape.broadcast", "align.broadcast_arrays"]
FLOORS = {"quick": {"evaluations": 1500, "distinct": 300, "outcome:variants-checked": 8000, "outcome:square-regime": 300},
          "thorough": {"evaluations": 30000, "distinct": 600}}
# labels of several types on one axis, held in an object array (years next to a climatology, ...): kept as they are
MIXED = np.array([1990, 2000.5, 'clim'], dtype=object)
FAMILIES = ['transpose', 'T', 'swapaxes', 'rollaxis', 'newaxis', 'squeeze', 'repeat', 'broadcast', 'broadcast_arrays', 'roundtrip']


def shards(tier, seed, scale=1.0):
    return common.rand_shards(ID, tier, seed, scale, 3200, 80000)


def cases(desc):
    rng = common.rng_for(ID, desc)
    for i in range(desc["n"]):
        yield gen_case(rng)


def dspec(rng, nd=None, regime=None, dims=None, dtype='f', minsize=1):
    """spec with disjoint label sets per dimension"""
    if dims is None:
        nd = rng.randint(0, 4) if nd is None else nd
        dims = rng.sample(gen.DIMS, nd)
    nd = len(dims)
    regime = regime or rng.choice(['distinct', 'equal', 'equal', 'distinct', 'ones'])
    if regime == 'ones':
        # several size-1 dimensions next to longer ones (squeeze / reshape / broadcast treat singletons specially)
        sizes = [1 if rng.random() < 0.5 else rng.randint(max(2, minsize), 3) for _ in range(nd)]
        if minsize > 1:
            sizes = [max(s, minsize) for s in sizes]
    elif regime == 'distinct':
        sizes = rng.sample([1, 2, 3, 4, 5], nd) if minsize == 1 else rng.sample([2, 3, 4, 5], nd)
    else:
        n = rng.randint(max(2, minsize), 3)
        sizes = [n] * nd
        if nd > 2 and rng.random() < 0.3:
            sizes[rng.randrange(nd)] = 1 if minsize == 1 else n
    labs, kinds = [], []
    for d, s in zip(dims, sizes):
        k = rng.choice('ifs')
        j = gen.DIMS.index(d) if d in gen.DIMS else 7
        if k == 'i':
            l = [100 * (j + 1) + x for x in rng.sample(range(0, 40), s)]
        elif k == 'f':
            l = [100.0 * (j + 1) + x / 2.0 for x in rng.sample(range(0, 80), s)]
        else:
            l = [d + c for c in rng.sample('abcdefgh', s)]
        if s == 2 and rng.random() < 0.12:
            # a flag dimension: labels False / True (bool dtype)
            k, l = 'b', rng.choice([[False, True], [True, False]])
        labs.append(l)
        kinds.append(k)
    return {"dims": list(dims), "labels": labs, "kinds": kinds, "values": gen.values(rng, tuple(sizes), dtype), "regime": regime,
            # the regimes of gen.spec: ordering cache queried, Fortran-ordered values, final labels / names reached through in-place edits of a used array
            "prime": rng.random() < 0.3, "forder": nd >= 2 and rng.random() < 0.15, "history": rng.random() < 0.15}


def gen_case(rng):
    fam = rng.choice(FAMILIES)
    sp = dspec(rng)
    c = {"family": fam, "a": sp, "r": rng.random(), "seed": rng.randrange(10 ** 6)}
    if fam in ('broadcast', 'broadcast_arrays'):
        others = [d for d in gen.DIMS if d not in sp["dims"]]
        ne = rng.randint(0, min(2, len(others)))
        ex = dspec(rng, dims=rng.sample(others, ne), regime=sp["regime"])
        c["extra"] = ex
        if fam == 'broadcast_arrays':
            # b shares some of a's axes (same labels) and has the extra ones, in random order
            shared = [d for d in sp["dims"] if rng.random() < 0.5]
            bd = shared + ex["dims"]
            rng.shuffle(bd)
            bl, bk = [], []
            for d in bd:
                s = sp if d in sp["dims"] else ex
                bl.append(s["labels"][s["dims"].index(d)])
                bk.append(s["kinds"][s["dims"].index(d)])
            c["b"] = {"dims": bd, "labels": bl, "kinds": bk, "values": gen.values(rng, tuple(len(l) for l in bl), 'f')}
    return c


def check(case, ctx):
    import random
    da = __import__("vp.boot", fromlist=["boot"]).boot()
    rng = random.Random(case["seed"])
    sp = case["a"]
    m = model.from_spec(sp)
    a = gen.build(sp)
    nd = m.ndim
    fam = case["family"]
    if sp["regime"] == 'equal':
        ctx.outcomes['square-regime'] += 1
    base = " on dims=%r shape=%r" % (m.dims, m.shape)

    def judge(label, fn, exp_dims, src=m, introduced=(), new_labels=None, operands=None, exp_values=None, key=fam, relax_none=(), ambient=True, exact_types=False):
        label = label + base
        res, exc = ctx.call(label, fn, operands=operands or (a,), meta='carry', meta_owner=ID, ambient=ambient)
        ctx.outcomes['variants-checked'] += 1
        if exc is not None:
            ctx.v(ID, key + ":raised:" + type(exc).__name__, "%s raised %s: %s" % (label, type(exc).__name__, str(exc)[:200]))
            return None
        if not common.is_da(res):
            if len(exp_dims) == 0:
                return res
            ctx.v(ID, key + ":not-dimarray", "%s returned %s" % (label, type(res).__name__))
            return None
        g = model.observe(res)
        if tuple(g.dims) != tuple(exp_dims):
            ctx.v(ID, key + ":dims", "%s: dims %r, expected %r" % (label, g.dims, tuple(exp_dims)))
            return res
        for d, lg in zip(g.dims, g.labels):
            if d in src.dims and d not in (new_labels or {}):
                ls = src.labels[src.dims.index(d)]
                if not model.labels_eq(lg, ls):
                    ctx.v(ID, key + ":labels", "%s: axis %r carries labels %r, the input's axis has %r" % (label, d, lg, ls))
                    return res
            elif new_labels and d in new_labels and new_labels[d] is not None:
                if not model.labels_eq(lg, new_labels[d]):
                    if d in relax_none and lg == [None]:
                        ctx.relaxed['size-1 introduced dimension labelled None'] += 1
                    else:
                        ctx.v(ID, key + ":new-labels", "%s: new axis %r has labels %r, expected %r" % (label, d, lg, new_labels[d]))
                        return res
                elif exact_types and [type(x_).__name__ for x_ in lg] != [type(x_).__name__ for x_ in new_labels[d]]:
                    ctx.v(ID, key + ":new-label-types", "%s: new axis %r has labels %r, expected %r with their types" % (label, d, lg, new_labels[d]))
                    return res
        msg = model.check_coordmap(g, src, label, introduced=introduced)
        if msg:
            ctx.v(ID, key + ":coordmap", msg)
        elif exp_values is not None and not model.values_eq(g.values, exp_values):
            ctx.v(ID, key + ":values", "%s: values differ from NumPy's %s" % (label, model.brief(exp_values)))
        return res

    def ref(i, how):
        # by position, by position counted from the end, or by name
        return i if how == 'pos' else i - nd if how == 'neg' else m.dims[i]

    if fam == 'transpose' and nd:
        for p in itertools.permutations(range(nd)):
            how = rng.choice(['pos', 'name', 'mixed', 'neg', 'mixed'])
            arg = [ref(i, rng.choice(['pos', 'name', 'neg']) if how == 'mixed' else how) for i in p]
            variadic = rng.random() < 0.5
            fn = (lambda arg=arg: a.transpose(*arg)) if variadic else (lambda arg=arg: a.transpose(arg))
            judge("a.transpose(%s%r)" % ('*' if variadic else '', arg), fn, [m.dims[i] for i in p], exp_values=np.transpose(m.values, p))
    elif fam == 'T':
        if nd <= 2:
            judge("a.T", lambda: a.T, m.dims[::-1], exp_values=m.values.T)
        else:
            ctx.relaxed['T on more than 2 dims (library asks for explicit dims)'] += 1
    elif fam == 'swapaxes' and nd:
        for i in range(nd):
            for j in range(nd):
                ed = list(m.dims)
                ed[i], ed[j] = ed[j], ed[i]
                ai, aj = ref(i, rng.choice(['pos', 'name'])), ref(j, rng.choice(['pos', 'name']))
                judge("a.swapaxes(%r, %r)" % (ai, aj), lambda ai=ai, aj=aj: a.swapaxes(ai, aj), ed, exp_values=np.swapaxes(m.values, i, j))
    elif fam == 'rollaxis' and nd:
        for i in range(nd):
            for start in range(0, nd + 1):
                order = list(np.rollaxis(np.empty((0,) + tuple(range(1, nd))).reshape([0] + [1] * (nd - 1)) if False else np.arange(nd).reshape([nd] + [1] * 0), 0, 0)) if False else None
                perm = list(range(nd))
                perm.remove(i)
                perm.insert(start if start <= i else start - 1, i)
                ai = ref(i, rng.choice(['pos', 'name']))
                if start == 0 and rng.random() < 0.5:
                    fn = lambda ai=ai: a.rollaxis(ai)
                else:
                    fn = lambda ai=ai, start=start: a.rollaxis(ai, start)
                judge("a.rollaxis(%r, %d)" % (ai, start), fn, [m.dims[q] for q in perm], exp_values=np.rollaxis(m.values, i, start))
    elif fam == 'newaxis':
        for pos in range(0, nd + 1):
            for vals in (None, [7, 8, 9], ['p', 'q'], np.array([1.5, 2.5]), [30.5], ['only'], MIXED):
                ed = list(m.dims)
                ed.insert(pos, 'n')
                kw = {} if vals is None else {"values": vals}
                if pos == 0 and rng.random() < 0.5:
                    fn = lambda kw=kw: a.newaxis('n', **kw)
                else:
                    fn = lambda kw=kw, pos=pos: a.newaxis('n', pos=pos, **kw)
                judge("a.newaxis('n', pos=%d, values=%s)" % (pos, codec.short(vals)), fn, ed, introduced=('n',),
                      new_labels={'n': [None] if vals is None else list(np.asarray(vals).tolist())}, exact_types=vals is MIXED)
        judge("a.newaxis('n', pos=-1)", lambda: a.newaxis('n', pos=-1), list(m.dims) + ['n'], introduced=('n',), new_labels={'n': [None]})
        # the usual next step: the new singleton gets its label, in place, on the result (the operand and every other result keep theirs)
        early = a.newaxis('n', pos=0)
        for how in ('set_axis', 'element', 'attr'):
            r1 = a.newaxis('n', pos=nd)
            lab1 = rng.choice(['run1', 7, 2.5])
            try:
                if how == 'set_axis':
                    r1.set_axis([lab1], axis='n')
                elif how == 'element':
                    r1.axes['n'][0] = lab1
                else:
                    r1.n = [lab1]
                ctx.outcomes['new-singleton-labelled-in-place'] += 1
            except Exception:
                ctx.outcomes['new-singleton-label-refused'] += 1
                continue
            judge("r = a.newaxis('n', pos=%d); label of 'n' set to %r in place (%s); r" % (nd, lab1, how), lambda: r1, list(m.dims) + ['n'], introduced=('n',),
                  new_labels={'n': [lab1]}, ambient=False)
            judge("a.newaxis('n', pos=0) made before another result's 'n' was labelled %r in place (%s)" % (lab1, how), lambda: early, ['n'] + list(m.dims),
                  introduced=('n',), new_labels={'n': [None]}, ambient=False)
            judge("a.newaxis('n', pos=0) after another result's 'n' was labelled %r in place (%s)" % (lab1, how), lambda: a.newaxis('n', pos=0), ['n'] + list(m.dims),
                  introduced=('n',), new_labels={'n': [None]})
    elif fam == 'squeeze':
        singles = [i for i in range(nd) if m.shape[i] == 1]
        judge("a.squeeze()", lambda: a.squeeze(), [d for i, d in enumerate(m.dims) if i not in singles])
        for i in range(nd):
            ai = ref(i, rng.choice(['pos', 'name']))
            if i in singles:
                judge("a.squeeze(%r)" % (ai,), lambda ai=ai: a.squeeze(ai), [d for q, d in enumerate(m.dims) if q != i])
            else:
                res, exc = ctx.call("a.squeeze(%r) (non-singleton)" % (ai,) + base, lambda ai=ai: a.squeeze(ai), operands=(a,), ambient=True)
                ctx.outcomes['variants-checked'] += 1
                if exc is None:
                    g = common.as_ma(res)
                    if model.compare(g, m, "squeeze of a non-singleton axis"):
                        ctx.v(ID, "squeeze:non-singleton", "a.squeeze(%r)%s on a non-singleton axis neither raised nor returned the array unchanged: dims %r shape %r" % (ai, base, g.dims, g.shape))

        # newaxis then squeeze is the identity
        for pos in range(nd + 1):
            judge("a.newaxis('n', pos=%d).squeeze('n')" % pos, lambda pos=pos: a.newaxis('n', pos=pos).squeeze('n'), m.dims, exp_values=m.values)
    elif fam == 'repeat':
        for pos in range(nd + 1):
            r0 = a.newaxis('n', pos=pos)
            ed = list(m.dims)
            ed.insert(pos, 'n')
            for vals, lab in ((3, [0, 1, 2]), ([5, 6], [5, 6]), (np.array([1.5, 2.5, 4.0]), [1.5, 2.5, 4.0]), (['u', 'v'], ['u', 'v']),
                              (da.Axis([1, 2, 3], 'n'), [1, 2, 3]), (1, [0]), ([42], [42]), (da.Axis(['z9'], 'n'), ['z9'])):
                ax = rng.choice(['n', pos])
                if isinstance(vals, da.Axis) and rng.random() < 0.5:
                    fn = lambda vals=vals: r0.repeat(vals)
                else:
                    fn = lambda vals=vals, ax=ax: r0.repeat(vals, axis=ax)
                judge("a.newaxis('n', pos=%d).repeat(%s, axis=%r)" % (pos, codec.short(vals if not isinstance(vals, da.Axis) else 'Axis([1,2,3],"n")'), ax),
                      fn, ed, introduced=('n',), new_labels={'n': lab}, operands=(a, r0))
            # a count given as a NumPy integer (n = mask.sum()): refused, or taken as the count - never as a single label
            for lbl_, fn_ in (("a.newaxis('n', pos=%d).repeat(np.int64(3), axis='n')" % pos, lambda: r0.repeat(np.int64(3), axis='n')),
                              ("a.newaxis('n', values=np.int64(3), pos=%d)" % pos, lambda pos=pos: a.newaxis('n', values=np.int64(3), pos=pos))):
                res_, exc_ = ctx.call(lbl_ + base, fn_, operands=(a, r0))
                ctx.outcomes['numpy-integer-counts'] += 1
                if exc_ is None:
                    judge(lbl_, lambda res_=res_: res_, ed, introduced=('n',), new_labels={'n': [0, 1, 2]}, operands=(a, r0))
        # repeating a non-singleton axis must be refused
        for i in range(nd):
            if m.shape[i] != 1:
                res, exc = ctx.call("a.repeat(2, axis=%r)" % m.dims[i] + base, lambda i=i: a.repeat(2, axis=m.dims[i]), operands=(a,), ambient=True)
                ctx.relaxed['repeat on a non-singleton axis (statement silent)'] += 1
                break
    elif fam == 'broadcast':
        ex = case["extra"]
        own = list(zip(m.dims, m.labels, sp["kinds"]))
        extra = list(zip(ex["dims"], ex["labels"], ex["kinds"]))
        alls = own + extra
        perms = list(itertools.permutations(range(len(alls))))
        rng.shuffle(perms)
        for p in perms[:24]:
            tgt = [alls[i] for i in p]
            tdims = [t[0] for t in tgt]
            form = rng.choice(['list', 'DimArray', 'OrderedDict'])
            taxes = [da.Axis(gen.np_labels(l, k), d) for d, l, k in tgt]
            if form == 'list':
                other = taxes
            elif form == 'DimArray':
                other = da.DimArray(np.zeros([len(t[1]) for t in tgt]), axes=taxes)
            else:
                other = OrderedDict((d, gen.np_labels(l, k)) for d, l, k in tgt)
            newl = {d: l for d, l, k in extra}
            judge("a.broadcast(%s over %r)" % (form, tdims), lambda other=other: a.broadcast(other), tdims, introduced=tuple(ex["dims"]),
                  new_labels=newl, operands=(a, other) if form != 'OrderedDict' else (a,), relax_none=[d for d, l, k in extra if len(l) == 1])
        # an own singleton dimension is replicated along a longer target axis
        singles = [i for i in range(nd) if m.shape[i] == 1]
        if singles:
            i = singles[0]
            tl = [901, 902, 903]
            taxes = [da.Axis(gen.np_labels(l, k), d) if q != i else da.Axis(np.array(tl), d) for q, (d, l, k) in enumerate(own)]
            src = model.MA(m.values, m.dims, m.labels)
            res, exc = ctx.call("a.broadcast(target with longer axis %r)" % m.dims[i] + base, lambda: a.broadcast(taxes), operands=(a,), meta='carry', meta_owner=ID, ambient=True)
            ctx.outcomes['variants-checked'] += 1
            if exc is not None:
                ctx.v(ID, "broadcast:raised:" + type(exc).__name__, "a.broadcast onto a longer axis for singleton dim %r%s raised %s: %s" % (m.dims[i], base, type(exc).__name__, str(exc)[:150]))
            else:
                g = model.observe(res)
                expv = np.repeat(m.values, 3, axis=i)
                labs = [list(l) for l in m.labels]
                labs[i] = tl
                msg = model.compare(g, model.MA(expv, m.dims, labs), "broadcast of singleton dim %r onto labels %r%s" % (m.dims[i], tl, base))
                if msg:
                    ctx.v(ID, "broadcast:own-singleton", msg)
        if len(singles) >= 2:
            # a target that lacks one of the array's singleton dimensions and keeps another one as a singleton: the dropped one goes
            # (if the library accepts the call at all), the kept one keeps its label - "every axis travels with its data"
            keep_i, drop_i = singles[0], singles[1]
            taxes = [da.Axis(gen.np_labels(l, k), d) for q, (d, l, k) in enumerate(own) if q != drop_i]
            res, exc = ctx.call("a.broadcast(target without singleton %r, keeping singleton %r)" % (m.dims[drop_i], m.dims[keep_i]) + base,
                                lambda: a.broadcast(taxes), operands=(a,), meta='carry', meta_owner=ID, ambient=True)
            ctx.outcomes['variants-checked'] += 1
            if exc is not None:
                ctx.outcomes['broadcast-dropping-a-singleton-refused'] += 1
            else:
                ctx.outcomes['broadcast-dropping-a-singleton'] += 1
                g = model.observe(res)
                expv = np.squeeze(m.values, axis=drop_i)
                msg = model.compare(g, model.MA(expv, [d for q, d in enumerate(m.dims) if q != drop_i], [list(l) for q, l in enumerate(m.labels) if q != drop_i]),
                                    "broadcast onto a target without singleton %r%s" % (m.dims[drop_i], base))
                if msg:
                    ctx.v(ID, "broadcast:kept-singleton", msg)
        # a target with an empty axis the array lacks: nothing to replicate the data along, the result is empty along it
        for pos_ in (0, nd):
            taxes = [da.Axis(gen.np_labels(l, k), d) for d, l, k in own]
            taxes.insert(pos_, da.Axis(np.array([], dtype=float), 'e0'))
            ed_ = list(m.dims)
            ed_.insert(pos_, 'e0')
            res, exc = ctx.call("a.broadcast(target with an empty axis 'e0' at %d)" % pos_ + base, lambda taxes=taxes: a.broadcast(taxes), operands=(a,), ambient=True)
            ctx.outcomes['variants-checked'] += 1
            ctx.outcomes['broadcast-onto-empty-axis'] += 1
            if exc is None and common.is_da(res):
                shp_ = list(m.shape)
                shp_.insert(pos_, 0)
                if list(res.dims) != ed_ or list(res.shape) != shp_ or res.axes['e0'].size != 0:
                    ctx.v(ID, "broadcast:empty-axis", "a.broadcast(target with an empty axis 'e0' at %d)%s returned dims %r shape %r labels of 'e0' %r, expected dims %r shape %r and no label" % (
                        pos_, base, res.dims, res.shape, res.axes['e0'].values.tolist() if 'e0' in res.dims else None, tuple(ed_), tuple(shp_)))
    elif fam == 'broadcast_arrays':
        bsp = case["b"]
        mb = model.from_spec(bsp)
        b = gen.build(bsp)
        ed = list(m.dims) + [d for d in mb.dims if d not in m.dims]
        label = "broadcast_arrays(a, b) a.dims=%r b.dims=%r shapes %r %r" % (m.dims, mb.dims, m.shape, mb.shape)
        res, exc = ctx.call(label, lambda: da.broadcast_arrays(a, b), operands=(a, b), ambient=True)
        ctx.outcomes['variants-checked'] += 1
        if exc is not None:
            ctx.v(ID, "broadcast_arrays:raised:" + type(exc).__name__, "%s raised %s: %s" % (label, type(exc).__name__, str(exc)[:200]))
        else:
            full = {}
            for s in (m, mb):
                for d, l in zip(s.dims, s.labels):
                    full.setdefault(d, l)
            for r, s, nm in zip(res, (m, mb), 'ab'):
                if not common.is_da(r):
                    if len(ed):
                        ctx.v(ID, "broadcast_arrays:not-dimarray", "%s: result for %s is %s" % (label, nm, type(r).__name__))
                    continue
                g = model.observe(r)
                if tuple(g.dims) != tuple(ed):
                    ctx.v(ID, "broadcast_arrays:dims", "%s: result for %s has dims %r, expected %r" % (label, nm, g.dims, tuple(ed)))
                    continue
                bad = [d for d, lg in zip(g.dims, g.labels) if not model.labels_eq(lg, full[d]) and not (len(full[d]) == 1 and lg == [None])]
                if bad:
                    ctx.v(ID, "broadcast_arrays:labels", "%s: result for %s has labels %r on %r, expected %r" % (label, nm, g.labels[g.dims.index(bad[0])], bad[0], full[bad[0]]))
                    continue
                msg = model.check_coordmap(g, s, label + " result for " + nm, introduced=tuple(d for d in ed if d not in s.dims))
                if msg:
                    ctx.v(ID, "broadcast_arrays:coordmap", msg)
        # NumPy-like broadcasting of a size-1 shared dimension: a restricted to one label along d is replicated along b's labels
        shared = [d_ for d_ in m.dims if d_ in mb.dims and len(m.labels[m.dims.index(d_)]) > 1]
        if shared:
            d_ = shared[0]
            k_ = m.dims.index(d_)
            sp1 = {"dims": list(m.dims), "labels": [list(l) if i != k_ else [l[0]] for i, l in enumerate(m.labels)], "kinds": sp["kinds"],
                   "values": np.take(m.values, [0], axis=k_)}
            a1 = gen.build(sp1)
            label1 = "broadcast_arrays(a1, b) with a1 of size 1 along shared %r: a1.dims=%r b.dims=%r" % (d_, m.dims, mb.dims)
            res1, exc1 = ctx.call(label1, lambda: da.broadcast_arrays(a1, b), operands=(a1, b), ambient=True)
            ctx.outcomes['variants-checked'] += 1
            if exc1 is not None:
                ctx.v(ID, "broadcast_arrays:singleton-raised:" + type(exc1).__name__, "%s raised %s: %s" % (label1, type(exc1).__name__, str(exc1)[:150]))
            elif common.is_da(res1[0]):
                g1 = model.observe(res1[0])
                bl = mb.labels[mb.dims.index(d_)]
                if d_ not in g1.dims or not model.labels_eq(g1.labels[g1.dims.index(d_)], bl):
                    ctx.v(ID, "broadcast_arrays:singleton-labels", "%s: labels of %r are %r, expected b's %r" % (label1, d_, g1.labels[g1.dims.index(d_)] if d_ in g1.dims else None, bl))
                else:
                    # every slice along d equals the single input slice
                    src1 = model.from_spec(sp1)
                    kk = g1.dims.index(d_)
                    for j in range(len(bl)):
                        sl = model.MA(np.take(g1.values, [j], axis=kk), g1.dims, [l if i != kk else [src1.labels[k_][0]] for i, l in enumerate(g1.labels)])
                        msg = model.check_coordmap(sl, src1, label1 + " slice %d" % j, introduced=tuple(q for q in g1.dims if q not in src1.dims))
                        if msg:
                            ctx.v(ID, "broadcast_arrays:singleton-values", msg)
                            break
    elif fam == 'roundtrip' and nd:
        p = list(range(nd))
        rng.shuffle(p)
        inv = [p.index(i) for i in range(nd)]
        judge("a.transpose(%r).transpose(%r)" % (p, inv), lambda: a.transpose(p).transpose(inv), m.dims, exp_values=m.values)
        i, j = rng.randrange(nd), rng.randrange(nd)
        judge("a.swapaxes(%d,%d).swapaxes(%d,%d)" % (i, j, i, j), lambda: a.swapaxes(i, j).swapaxes(m.dims[i], m.dims[j]) if False else a.swapaxes(i, j).swapaxes(i, j), m.dims, exp_values=m.values)
        names = [m.dims[q] for q in p]
        judge("a.transpose(*names).transpose(*a.dims)", lambda: a.transpose(*names).transpose(*m.dims), m.dims, exp_values=m.values)
        pos = rng.randint(0, nd)
        judge("a.newaxis('n', [1,2], pos).take(1, axis='n')", lambda: a.newaxis('n', values=[1, 2], pos=pos).take(2, axis='n'), m.dims, exp_values=m.values, ambient=False)
    if nd == 0 and fam not in ('newaxis', 'broadcast', 'broadcast_arrays', 'T', 'squeeze', 'repeat'):
        return None
    return (fam, nd, sp["regime"], tuple(sorted(sp["kinds"])), len(case.get("extra", {}).get("dims", [])))
