"""C12 - stack and concatenate join arrays without misaligning them."""
import itertools
import numpy as np
from .. import gen, model, codec, findings
from . import common

ID = "C12"
LEVEL = "exploration"
RULE = ("1-4 arrays over the same set of 0-3 dims built from a base array: variant of the secondary axes in {equal, permuted labels, "
        "overlapping, disjoint, dimension order differs}; shapes square (positional mix-up is shape-compatible) or not; given as list / tuple / "
        "dict; keys None / int / str; stack onto a new axis or concatenate along each axis by name or position; align x sort. "
        "class = (op, variant, n arrays, ndim, square, container, keys kind, align, sort, outcome); trivial = single 0-d input")
ANCHORS = ["align.stack", "align.concatenate", "align._get_axes", "align._check_stack_args", "align._concatenate_axes"]
# entry points the workload calls itself; the other anchors are helpers behind them (counted as evidence only)
ANCHORS_REQUIRED = ["align.stack", "align.concatenate"]
FLOORS = {"quick": {"evaluations": 2000, "distinct": 500, "outcome:refused-as-required": 150, "outcome:joined-checked": 800, "outcome:dimorder-cases": 100},
          "thorough": {"evaluations": 40000, "distinct": 1500}}
VARIANTS = ['equal', 'equal', 'perm-labels', 'overlap', 'disjoint', 'dimorder', 'size1-differs', 'nested']


def shards(tier, seed, scale=1.0):
    return common.rand_shards(ID, tier, seed, scale, 4000, 100000)


def cases(desc):
    rng = common.rng_for(ID, desc)
    for i in range(desc["n"]):
        yield gen_case(rng)


def gen_case(rng):
    nd = rng.randint(0, 3)
    dims = rng.sample(gen.DIMS, nd)
    square = rng.random() < 0.45
    sizes = [2] * nd if square else [rng.randint(1, 3) for _ in dims]
    variant = rng.choice(VARIANTS)
    if variant == 'size1-differs' and nd:
        sizes[rng.randrange(nd)] = 1
    kinds = [rng.choice('ifs') for _ in dims]
    base = gen.spec(rng, dims=dims, sizes=sizes, kinds=kinds)
    narr = rng.randint(1, 4)
    op = rng.choice(['stack', 'concat']) if nd else 'stack'
    ck = rng.randrange(nd) if nd else None
    specs = []
    nested_dim = rng.randrange(nd) if nd else None
    for j in range(narr):
        labs = []
        kinds_j = list(kinds)
        for q, (lab, k) in enumerate(zip(base["labels"], kinds)):
            lab = list(lab)
            if j > 0:
                if op == 'concat' and q == ck:
                    # labels along the concatenation axis: fresh ones (sometimes the same again)
                    if rng.random() < 0.7:
                        lab = gen.labels(rng, rng.randint(1, 3), k, rng.choice(['inc', 'dec', 'shuf']))
                        if k == 'i' and rng.random() < 0.3:
                            lab = [x + 0.5 for x in lab]        # int labels first, fractional float labels after
                            kinds_j[q] = 'f'
                elif variant == 'perm-labels' and len(lab) > 1:
                    lab = lab[::-1]
                elif variant in ('overlap', 'disjoint'):
                    new = []
                    for _ in lab:
                        new.append(gen.absent_label(rng, lab + new, k))
                    if variant == 'overlap' and len(lab) > 1:
                        new[0] = lab[0]
                    lab = new
                elif variant == 'size1-differs' and len(lab) == 1:
                    lab = [gen.absent_label(rng, lab, k)]
                elif variant == 'nested' and len(lab) > 1 and q == nested_dim:
                    lab = [lab[rng.randrange(len(lab))]] if rng.random() < 0.6 else lab[:-1]      # a subset: other size
            labs.append(lab)
        sp = {"dims": list(dims), "labels": labs, "kinds": kinds_j, "values": gen.values(rng, tuple(len(l) for l in labs), 'f'),
              # every input has its own label dtypes (narrow / unsigned for some), memory layout and history
              "ldtypes": [gen.label_dtype(rng, l_, k_, p=0.15) for l_, k_ in zip(labs, kinds_j)],
              "forder": nd >= 2 and rng.random() < 0.15, "history": rng.random() < 0.12, "prime": rng.random() < 0.3}
        if variant == 'dimorder' and j > 0 and nd > 1:
            p = list(range(nd))
            while p == list(range(nd)):
                rng.shuffle(p)
            sp = dict(sp, dims=[sp["dims"][i] for i in p], labels=[sp["labels"][i] for i in p], kinds=[sp["kinds"][i] for i in p],
                      ldtypes=[sp["ldtypes"][i] for i in p], values=np.transpose(sp["values"], p).copy())
        specs.append(sp)
    if rng.random() < 0.2:
        # 32-bit integer data beyond 2**24 (counts, ids): filling gaps with NaN makes them float64, which holds them exactly
        for sp in specs:
            sp["values"] = (np.asarray(sp["values"]) + 2 ** 24 + 1).astype(np.int32)
    align = rng.random() < 0.4
    keys = rng.choice([None, 'str', 'int'])
    if keys == 'str':
        keys = rng.sample(list('pqrstu'), narr)
    elif keys == 'int':
        keys = rng.sample([10, 20, 30, 40, 5], narr)
    container = rng.choice(['list', 'tuple', 'dict']) if (op == 'stack' and keys is not None) else rng.choice(['list', 'tuple'])
    return {"op": op, "specs": specs, "variant": variant, "square": square, "align": align, "sort": align and rng.random() < 0.5,
            "keys": keys, "container": container, "ck": ck, "axis_by_pos": rng.random() < 0.5}


def differing_dims(ms, skip=None):
    """secondary dims whose label sequence differs between some pair of inputs"""
    out = []
    for d in ms[0].dims:
        if d == skip:
            continue
        l0 = ms[0].labels[ms[0].dims.index(d)]
        if any(not model.labels_eq(m.labels[m.dims.index(d)], l0) for m in ms[1:]):
            out.append(d)
    return out


def check_slice_from(ctx, key, label, got, src, exact_dims=True):
    """got (MA) must hold exactly the labelled data of src: every got cell = src cell at the same
    labels or NaN where src has none; every src cell appears"""
    if sorted(got.dims) != sorted(src.dims):
        ctx.v(ID, key + ":dims", "%s: dims %r vs input dims %r" % (label, got.dims, src.dims))
        return False
    # compare by coordinates irrespective of dim order
    for pos in itertools.product(*[range(n) for n in got.values.shape]):
        coord = {d: got.labels[k][p] for k, (d, p) in enumerate(zip(got.dims, pos))}
        f, v = model.lookup(src, coord)
        g = got.values[pos]
        if f and not model.lab_eq(g, v):
            ctx.v(ID, key + ":misaligned", "%s: value at %r is %r, the input has %r there" % (label, coord, g, v))
            return False
        if not f and not model.isnan(g):
            ctx.v(ID, key + ":invented", "%s: value at %r is %r but the input has no such labels" % (label, coord, g))
            return False
    for pos in itertools.product(*[range(n) for n in src.values.shape]):
        coord = {d: src.labels[k][p] for k, (d, p) in enumerate(zip(src.dims, pos))}
        f, v = model.lookup(got, coord)
        if not f or not model.lab_eq(v, src.values[pos]):
            ctx.v(ID, key + ":lost", "%s: input value %r at %r is missing from the result (found %r)" % (label, src.values[pos], coord, v if f else None))
            return False
    return True


def check(case, ctx):
    da = __import__("vp.boot", fromlist=["boot"]).boot()
    specs = case["specs"]
    ms = [model.from_spec(s) for s in specs]
    arrs = [gen.build(s) for s in specs]
    import zlib
    for i_, (a_, s_) in enumerate(zip(arrs, specs)):
        z_ = zlib.crc32(repr(s_["labels"]).encode()) + i_
        common.set_fillattrs(a_, z_, ctx.outcomes), common.set_tols(a_, z_ + 2, ctx.outcomes)
    op, align, sort, variant = case["op"], case["align"], case["sort"], case["variant"]
    narr = len(arrs)
    nd = ms[0].ndim
    same_order = all(tuple(m.dims) == tuple(ms[0].dims) for m in ms)
    if not same_order:
        ctx.outcomes['dimorder-cases'] += 1
    kw = {"align": align}
    if align:
        kw["sort"] = sort
    desc = "[%s]" % "; ".join("dims=%r labels=%s" % (m.dims, codec.short(m.labels, 100)) for m in ms)
    klass_tail = (variant, narr, nd, case["square"], case["container"], type(case["keys"][0]).__name__ if case["keys"] else None, align, sort)
    if op == 'stack':
        keys = case["keys"]
        if case["container"] == 'dict':
            arg = dict(zip(keys, arrs))
            fn = lambda: da.stack(arg, axis='new', **kw)
            label = "stack(dict keys=%r, axis='new', %s) of %s" % (keys, kw, desc)
        else:
            arg = list(arrs) if case["container"] == 'list' else tuple(arrs)
            if keys is None:
                fn = lambda: da.stack(arg, axis='new', **kw)
            else:
                fn = lambda: da.stack(arg, axis='new', keys=keys, **kw)
            label = "stack(%s, axis='new', keys=%r, %s) of %s" % (case["container"], keys, kw, desc)
        res, exc = ctx.call(label, fn, operands=tuple(arrs), meta='drop', containers=(arg,), ambient=True)
        diff = differing_dims([model.MA(np.transpose(m.values, [m.dims.index(d) for d in ms[0].dims]), ms[0].dims,
                                        [m.labels[m.dims.index(d)] for d in ms[0].dims]) for m in ms])
        must_refuse = bool(diff) and not align
        if must_refuse:
            if exc is None:
                ctx.v(ID, "stack:should-refuse", "%s returned %s although secondary axes %r differ and align=False" % (label, common.brief_res(res), diff))
            elif not isinstance(exc, ValueError):
                ctx.v(ID, "stack:wrong-exc", "%s raised %s(%s), expected ValueError" % (label, type(exc).__name__, str(exc)[:100]))
            else:
                ctx.outcomes['refused-as-required'] += 1
            return ('stack', 'refuse') + klass_tail
        if exc is not None:
            if not same_order and isinstance(exc, ValueError):
                ctx.outcomes['dimorder-refused'] += 1
                return ('stack', 'dimorder-refused') + klass_tail
            ctx.v(ID, "stack:raised:" + type(exc).__name__, "%s raised %s: %s" % (label, type(exc).__name__, str(exc)[:200]))
            return ('stack', 'raised') + klass_tail
        if not common.is_da(res):
            ctx.v(ID, "stack:not-dimarray", "%s returned %s" % (label, type(res).__name__))
            return ('stack', 'bad') + klass_tail
        g = model.observe(res)
        ek = list(keys) if keys is not None else list(range(narr))
        if not g.dims or g.dims[0] != 'new' or not model.labels_eq(g.labels[0], ek):
            ctx.v(ID, "stack:new-axis", "%s: first dimension %r labelled %r, expected 'new' labelled %r" % (label, g.dims[:1], g.labels[:1], ek))
            return ('stack', 'bad') + klass_tail
        if sorted(g.dims[1:]) != sorted(ms[0].dims):
            ctx.v(ID, "stack:dims", "%s: dims %r, expected ('new',) + %r" % (label, g.dims, tuple(ms[0].dims)))
            return ('stack', 'bad') + klass_tail
        if same_order and tuple(g.dims[1:]) != tuple(ms[0].dims):
            ctx.v(ID, "stack:dims", "%s: dims %r, expected ('new',) + %r" % (label, g.dims, tuple(ms[0].dims)))
        ctx.outcomes['joined-checked'] += 1
        for d, lg in zip(g.dims[1:], g.labels[1:]):
            un = model.uniq_union(*[m.labels[m.dims.index(d)] for m in ms])
            if len(lg) != len(un) or not all(model.has_label(un, x) for x in lg):
                ctx.v(ID, "stack:secondary-labels", "%s: labels of %r are %r, expected the union %r" % (label, d, lg, un))
                return ('stack', 'bad') + klass_tail
            if align and sort and model.strict_dir(lg) not in ('inc', 'any'):
                ctx.v(ID, "stack:not-sorted", "%s: sort=True but labels of %r are %r" % (label, d, lg))
        for j in range(narr):
            sl = model.MA(g.values[j], g.dims[1:], g.labels[1:])
            if not check_slice_from(ctx, "stack", "%s: slice at key %r" % (label, ek[j]), sl, ms[j]):
                break
        return ('stack', 'joined') + klass_tail
    # ---------------------------------------------------------------- concatenate
    ck = case["ck"]
    d0 = ms[0].dims[ck]
    axis = ck if case["axis_by_pos"] else d0
    arg = list(arrs) if case["container"] == 'list' else tuple(arrs)
    label = "concatenate(%s, axis=%r, %s) of %s" % (case["container"], axis, kw, desc)
    res, exc = ctx.call(label, lambda: da.concatenate(arg, axis=axis, **kw), operands=tuple(arrs), meta='drop', containers=(arg,), ambient=True)
    norm = [model.MA(np.transpose(m.values, [m.dims.index(d) for d in ms[0].dims]), ms[0].dims, [m.labels[m.dims.index(d)] for d in ms[0].dims]) for m in ms]
    diff = differing_dims(norm, skip=d0)
    if diff and not align:
        if exc is None:
            ctx.v(ID, "concat:should-refuse", "%s returned %s although secondary axes %r differ and align=False" % (label, common.brief_res(res), diff))
        elif not isinstance(exc, ValueError):
            ctx.v(ID, "concat:wrong-exc", "%s raised %s(%s), expected ValueError" % (label, type(exc).__name__, str(exc)[:100]))
        else:
            ctx.outcomes['refused-as-required'] += 1
        return ('concat', 'refuse') + klass_tail
    if exc is not None:
        if not same_order and isinstance(exc, ValueError):
            ctx.outcomes['dimorder-refused'] += 1
            return ('concat', 'dimorder-refused') + klass_tail
        ctx.v(ID, "concat:raised:" + type(exc).__name__, "%s raised %s: %s" % (label, type(exc).__name__, str(exc)[:200]))
        return ('concat', 'raised') + klass_tail
    if not common.is_da(res):
        ctx.v(ID, "concat:not-dimarray", "%s returned %s" % (label, type(res).__name__))
        return ('concat', 'bad') + klass_tail
    g = model.observe(res)
    if sorted(g.dims) != sorted(ms[0].dims) or (same_order and tuple(g.dims) != tuple(ms[0].dims)):
        ctx.v(ID, "concat:dims", "%s: dims %r, expected %r" % (label, g.dims, tuple(ms[0].dims)))
        return ('concat', 'bad') + klass_tail
    ctx.outcomes['joined-checked'] += 1
    gk = g.dims.index(d0)
    exp_lab = sum([m.labels[m.dims.index(d0)] for m in ms], [])
    if not model.labels_eq(g.labels[gk], exp_lab):
        ctx.v(ID, "concat:labels", "%s: labels along %r are %r, expected the concatenation %r" % (label, d0, g.labels[gk], exp_lab))
        return ('concat', 'bad') + klass_tail
    for d, lg in zip(g.dims, g.labels):
        if d == d0:
            continue
        un = model.uniq_union(*[m.labels[m.dims.index(d)] for m in ms])
        if len(lg) != len(un) or not all(model.has_label(un, x) for x in lg):
            ctx.v(ID, "concat:secondary-labels", "%s: labels of %r are %r, expected %r" % (label, d, lg, un))
            return ('concat', 'bad') + klass_tail
        if not diff and not align and not model.labels_eq(lg, ms[0].labels[ms[0].dims.index(d)]):
            ctx.v(ID, "concat:secondary-changed", "%s: labels of %r changed to %r" % (label, d, lg))
        if align and sort and model.strict_dir(lg) not in ('inc', 'any'):
            ctx.v(ID, "concat:not-sorted", "%s: sort=True but labels of %r are %r" % (label, d, lg))
    off = 0
    for j, m in enumerate(ms):
        n = len(m.labels[m.dims.index(d0)])
        block = np.take(g.values, range(off, off + n), axis=gk)
        labs = [list(l) for l in g.labels]
        # positions along d0 are matched positionally (labels may repeat across inputs): use unique tokens
        toks = [("#", i) for i in range(n)]
        labs[gk] = toks
        src_labs = [list(l) for l in m.labels]
        src_labs[m.dims.index(d0)] = toks
        if not check_slice_from(ctx, "concat", "%s: block of input %d" % (label, j), model.MA(block, g.dims, labs), model.MA(m.values, m.dims, src_labs)):
            break
        off += n
    return ('concat', 'joined') + klass_tail
