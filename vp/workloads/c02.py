"""C02 - label slices are inclusive bounding boxes; position slices stay NumPy-like.

The oracle (model.slice_positions) is written from the statement (interval membership on the
labels), not from searchsorted arithmetic.  One block is enumerated completely."""
import itertools
import numpy as np
from .. import gen, model, codec
from . import common, c01

ID = "C02"
LEVEL = "exploration"
RULE = ("block 'mono' (enumerated completely, exhaustive for its bounds; thorough tier: length 0-7 and steps up to 4 / -3): monotonic axis of length 0-5 with labels 1,3,5,.. x {int,float} x "
        "{inc,dec} x start,stop in {None} U every half step from 2 below the smallest to 2 above the largest label x step in "
        "{None,1,2,3,-1,-2}; random blocks: shuffled-numeric and str axes with bounds from the labels (and absent bounds), slices in "
        "any dimension of 1-4-d arrays combined with other index kinds, position slices vs NumPy. "
        "slices under a look-up tolerance (Axis.tol, take(tol=)); position slices also on arrays that remember indexing.by='position' and through isel. class = (block, length, kind, direction, where start/stop fall, step); trivial = full slice")
ANCHORS = ["indexing.locate_slice", "indexing._locate_slice_strict", "indexing.is_monotonic_equal", "bases.loc", "bases.__getitem__"]
# entry points the workload calls itself; the other anchors are helpers behind them (counted as evidence only)
ANCHORS_REQUIRED = ["bases.__getitem__"]
FLOORS = {"quick": {"evaluations": 20000, "distinct": 300, "outcome:strict-slices": 500},
          "thorough": {"evaluations": 60000, "distinct": 300}}
STEPS = [None, 1, 2, 3, -1, -2]
NSH = 16


def mono_cases(maxn=5, steps=None):
    steps = steps or STEPS
    for n in range(0, maxn + 1):
        for kind in 'if':
            for dirn in ((1, -1) if n > 1 else (1,)):
                lab = [2 * k + 1 for k in range(n)][::dirn]
                if kind == 'f':
                    lab = [float(x) for x in lab]
                hi = 2 * n + 1 if n else 3
                bounds = [None] + [x / 2.0 for x in range(-2, 2 * hi + 3)]
                for lo in bounds:
                    for up in bounds:
                        for step in steps:
                            yield {"block": "mono", "lab": lab, "kind": kind, "start": lo, "stop": up, "step": step}


def shards(tier, seed, scale=1.0):
    out = []
    for i in range(NSH):
        out.append({"name": "mono-%d" % i, "kind": "enum", "block": "mono", "part": i, "of": NSH, "exhaustive": True,
                    "seed": seed, "guest_ok": i == 0, "tier": tier})
    out += common.rand_shards(ID, tier, seed, scale, 8000, 300000, nshards=NSH)
    return out


def cases(desc):
    if desc["kind"] == "enum":
        frac = desc.get("frac", 1.0)
        stride = desc["of"] * (int(round(1 / frac)) if frac < 1 else 1)
        deep = desc.get("tier") == "thorough" and not desc.get("guest_of")
        gen_ = mono_cases(7, [None, 1, 2, 3, 4, -1, -2, -3]) if deep else mono_cases()
        for i, c in enumerate(gen_):
            if i % stride == desc["part"]:
                yield c
        return
    rng = common.rng_for(ID, desc)
    for i in range(desc["n"]):
        yield gen_case(rng)


def gen_case(rng):
    r = rng.random()
    if r < 0.4:
        # strict rule: str axis (any order) or shuffled numeric axis, bounds from the labels (or absent)
        n = rng.randint(1, 6)
        kind = rng.choice('sif')
        order = rng.choice(['inc', 'dec', 'shuf']) if kind == 's' else 'shuf'
        lab = gen.labels(rng, n, kind, order)
        if kind != 's' and model.direction(lab) is not None:
            # make it really non-monotonic when possible, else keep (then the bbox rule applies)
            if n >= 3:
                lab[0], lab[1] = lab[1], lab[0]
                if model.direction(lab) is not None:
                    lab[-1], lab[-2] = lab[-2], lab[-1]
        def bound():
            q = rng.random()
            if q < 0.2:
                return None
            if q < 0.3:
                return gen.absent_label(rng, lab, kind)
            return lab[rng.randrange(n)]
        ldt = gen.label_dtype(rng, lab, kind, p=0.2)
        if ldt in ('int8', 'int16'):
            # spread the labels so that differences of neighbours do not fit the label dtype
            f = 4 if ldt == 'int8' else 1000
            lab = [v * f for v in lab]
        return {"block": "strict", "lab": lab, "kind": kind, "ldtype": ldt, "derive": rng.choice([None, None, None, 'rev', 'revix', 'sub']), "start": bound(), "stop": bound(), "step": rng.choice(STEPS)}
    if r < 0.55:
        # monotonic axes with irregular spacing and bounds of the other numeric kind
        n = rng.randint(0, 6)
        kind = rng.choice('if')
        lab = gen.labels(rng, n, kind, rng.choice(['inc', 'dec']))
        if n >= 2 and rng.random() < 0.3:
            # weakly monotonic axis with a repeated label (still "monotonic": the bounding-box rule applies)
            j = rng.randrange(n - 1)
            lab[j + 1] = lab[j]
        pool = [None] + [v / 4.0 for v in range(-24, 128)] + list(range(-6, 32))
        if kind == 'i' and rng.random() < 0.15:
            # integer labels beyond 2**53 (nanosecond time stamps, ids) with integer bounds: exact, though float64 cannot tell neighbours apart
            lab = [int(v) + 2 ** 53 for v in lab]
            ib = [None, None] + [v + 2 ** 53 for v in range(-6, 32)]
            return {"block": "mono-rand", "lab": lab, "kind": kind, "ldtype": None, "derive": rng.choice([None, None, 'rev', 'revix', 'sub']),
                    "start": rng.choice(ib), "stop": rng.choice(ib), "step": rng.choice(STEPS + [4, -3]), "big53": True}
        return {"block": "mono-rand", "lab": lab, "kind": kind, "ldtype": gen.label_dtype(rng, lab, kind, p=0.2),
                "derive": rng.choice([None, None, 'rev', 'revix', 'sub']), "start": rng.choice(pool), "stop": rng.choice(pool), "step": rng.choice(STEPS + [4, -3])}
    if r < 0.8:
        # N-d: a slice in one or two dims, other index kinds elsewhere
        sp = gen.spec(rng, mindim=1, maxdim=4, minsize=1, maxsize=5, narrow=True)
        nd = len(sp["dims"])
        idx = []
        ik = []
        sl_dims = rng.sample(range(nd), rng.randint(1, min(2, nd)))
        for d in range(nd):
            lab, kind = sp["labels"][d], sp["kinds"][d]
            if d in sl_dims:
                strict = kind == 's' or model.direction(lab) is None
                def bound():
                    q = rng.random()
                    if q < 0.25:
                        return None
                    if strict or q < 0.6:
                        return lab[rng.randrange(len(lab))]
                    return lab[rng.randrange(len(lab))] + rng.choice([-0.5, 0.5, 0.25, -3, 3])
                idx.append(slice(bound(), bound(), rng.choice(STEPS)))
                ik.append('slice')
            else:
                k = rng.choice(['scalar', 'list', 'arr', 'mask', 'full', 'rep', 'one'])
                idx.append(c01.gen_index(rng, lab, kind, k, None))
                ik.append(k)
        return {"block": "nd", "a": sp, "idx": idx, "ikinds": ik, "form": rng.choice(['full', 'short', 'ellipsis']), "ellpos": rng.randint(0, nd)}
    # position slices vs NumPy
    sp = gen.spec(rng, mindim=1, maxdim=3, minsize=0, maxsize=5, narrow=True)
    nd = len(sp["dims"])
    def pb(n):
        return rng.choice([None, None] + list(range(-n - 2, n + 3)))
    idx = []
    for d in range(nd):
        n = len(sp["labels"][d])
        if rng.random() < 0.7:
            idx.append(slice(pb(n), pb(n), rng.choice([None, 1, 2, 3, -1, -2])))
        else:
            idx.append(slice(None))
    return {"block": "pos", "a": sp, "idx": idx}


def rel(lab, b):
    if b is None:
        return 'None'
    if not lab:
        return 'any'
    try:
        if b in lab:
            return 'on'
        if b < min(lab):
            return 'below'
        if b > max(lab):
            return 'above'
        return 'between'
    except TypeError:
        return 'other'


def check(case, ctx):
    blk = case["block"]
    if blk in ("mono", "strict", "mono-rand"):
        lab, kind = case["lab"], case["kind"]
        n = len(lab)
        sp = {"dims": ["t"], "labels": [lab], "kinds": [kind], "ldtypes": [case.get("ldtype")], "values": np.arange(n, dtype=float) * 10 + 7}
        m = model.from_spec(sp)
        dv = case.get("derive")
        if dv and n >= 1:
            # same observable content, other history: the array is a reversed / positional slice of a parent whose axis has
            # already been searched (so that whatever the axis caches about its ordering is populated and then inherited)
            psp = dict(sp)
            if dv in ('rev', 'revix'):
                psp["labels"] = [lab[::-1]]
                psp["values"] = sp["values"][::-1].copy()
            else:
                extra = (max(lab) + 3) if kind != 's' else 'zz'
                psp["labels"] = [[extra] + list(lab)]
                psp["values"] = np.concatenate([[-1.], sp["values"]])
            parent = gen.build(psp)
            parent.axes[0].is_monotonic()
            try:
                parent[psp["labels"][0][0]:psp["labels"][0][-1]]
            except Exception:
                pass
            a = parent[::-1] if dv == 'rev' else parent.ix[::-1] if dv == 'revix' else parent.ix[1:]
            ctx.outcomes['derived-axes'] += 1
        else:
            a = gen.build(sp)
        sl = slice(case["start"], case["stop"], case["step"])
        # a look-up tolerance in force (on the Axis, or handed to take): tolerances are for scalar / list look-ups, a slice still selects
        # exactly the labels between its bounds
        import zlib
        hz = zlib.crc32(repr((lab, case["start"], case["stop"], case["step"])).encode())
        tolv = [0.3, 0.75, 2.5][hz % 3] if (kind != 's' and n >= 1 and hz % 4 == 0) else None
        tol_on_axis = tolv is not None and (hz // 4) % 2 == 0
        if tol_on_axis:
            a.axes[0].tol = tolv
            ctx.outcomes['slices-on-axes-carrying-a-tolerance'] += 1
        exp = exp_exc = None
        try:
            pos = model.slice_positions(lab, sl.start, sl.stop, sl.step)
            exp = model.take_positions(m, [pos])
        except IndexError:
            exp_exc = IndexError
        jobs = [("a[%r:%r:%r]" % (sl.start, sl.stop, sl.step), lambda: a[sl]),
                ("a.take(slice(%r,%r,%r), axis='t')" % (sl.start, sl.stop, sl.step), lambda: a.take(sl, axis='t')),
                ("a.take(slice(%r,%r,%r), axis=-1)" % (sl.start, sl.stop, sl.step), lambda: a.take(sl, axis=-1))]
        if blk != "mono" or (case["start"] is None or case["stop"] is None):
            jobs.append(("a.loc[%r:%r:%r]" % (sl.start, sl.stop, sl.step), lambda: a.loc[sl]))
            jobs.append(("a.sel(t=slice(%r,%r,%r))" % (sl.start, sl.stop, sl.step), lambda: a.sel(t=sl)))
        if tolv is not None and not tol_on_axis:
            jobs.append(("a.take(slice(%r,%r,%r), axis='t', tol=%r)" % (sl.start, sl.stop, sl.step, tolv), lambda: a.take(sl, axis='t', tol=tolv)))
            ctx.outcomes['slices-with-tol-keyword'] += 1
        if blk == 'strict':
            ctx.outcomes['strict-slices'] += 1     # str or shuffled axis: both bounds must be existing labels
        for label, fn in jobs:
            label = "%s on axis %s" % (label, codec.short(lab, 80))
            res, exc = ctx.call(label, fn, operands=(a,), meta='carry')
            if exp_exc is not None:
                common.expect(ctx, ID, "slice-" + blk, label, res, exc, exp_exc=(IndexError, KeyError, ValueError))
            else:
                common.expect(ctx, ID, "slice-" + blk, label, res, exc, exp=exp)
        if sl == slice(None):
            return None
        return (blk, n, kind, model.direction(lab) if kind != 's' else 'str', rel(lab, sl.start), rel(lab, sl.stop), sl.step,
                'raise' if exp_exc else 'ok')
    if blk == "nd":
        sp = case["a"]
        m = model.from_spec(sp)
        a = gen.build(sp)
        idx = case["idx"]
        t = c01.tuple_form(idx, case["form"], case["ellpos"])
        single = t[0] if len(t) == 1 else t
        exp = exp_exc = None
        try:
            pos = c01.model_positions(m, idx, None, None)
            exp = model.take_positions(m, pos)
        except IndexError:
            exp_exc = IndexError
        jobs = [("a[t]", lambda: a[single]),
                ("a.take({dim: idx})", lambda: a.take({d: ix for d, ix in zip(m.dims, idx) if not c01.is_full(ix)})),
                ("a.take({negative pos: idx})", lambda: a.take({i - m.ndim: ix for i, ix in enumerate(idx) if not c01.is_full(ix)})),
                ("a.loc[t]", lambda: a.loc[single])]
        for label, fn in jobs:
            label = "%s with t=%s labels=%s" % (label, codec.short(t, 200), codec.short(m.labels, 200))
            res, exc = ctx.call(label, fn, operands=(a,), meta='carry')
            if exp_exc is not None:
                common.expect(ctx, ID, "slice-nd", label, res, exc, exp_exc=(IndexError, KeyError, ValueError))
            else:
                common.expect(ctx, ID, "slice-nd", label, res, exc, exp=exp)
        return ("nd", m.ndim, tuple(zip(sp["kinds"], case["ikinds"])), case["form"],
                tuple((rel(l, ix.start), rel(l, ix.stop), ix.step) for l, ix in zip(m.labels, idx) if isinstance(ix, slice) and not c01.is_full(ix)))
    # position slices
    sp = case["a"]
    m = model.from_spec(sp)
    import collections
    cnt_ = collections.Counter()
    a = common.build_under_option(sp, cnt_)      # one in six built while indexing.by='position' was in force
    posmode = bool(cnt_)
    ctx.outcomes.update(cnt_)
    idx = tuple(case["idx"])
    ev = m.values[idx]
    exp = model.MA(ev, m.dims, [list(np.array(l, dtype=object)[ix]) for l, ix in zip(m.labels, idx)])
    single = idx[0] if len(idx) == 1 else idx
    # (.ix is documented as a toggle: on an array that remembers position mode it looks labels up, and plain [] is positional)
    for label, fn in [("a.ix[p]", lambda: a.ix[single]) if not posmode else ("a[p] on an array built under indexing.by='position'", lambda: a[single]),
                      ("a.iloc[p]", lambda: a.iloc[single]),
                      ("a.isel(**{dim: p})", lambda: a.isel(**{d: ix for d, ix in zip(m.dims, idx)})),
                      ("a.take(p, indexing='position')", lambda: a.take(idx, indexing='position'))]:
        label = "%s with p=%s shape=%r" % (label, codec.short(idx, 160), m.shape)
        res, exc = ctx.call(label, fn, operands=(a,), meta='carry')
        common.expect(ctx, ID, "slice-pos", label, res, exc, exp=exp)
    if all(c01.is_full(i) for i in idx):
        return None
    return ("pos", m.shape, tuple((ix.start, ix.stop, ix.step) for ix in idx))
