"""C17 - axis-wise selection and missing-value handling keep slices with their labels."""
import numpy as np
from .. import gen, model, codec, monitors
from . import common

ID = "C17"
LEVEL = "exploration"
RULE = ("arrays of 1-4 dims, unsorted int/float/str labels, float (NaN pattern none/some/whole slice/all) or int data; operation in "
        "{sort_axis (default, callable key, dict key), take_axis (labels / positions, repeats), compress_axis (mask), dropna (default and "
        "every minvalid 0..slice size for >=2-d), fillna, setna (scalar / list / ndarray mask / DimArray mask / mixed list), inplace both ways}; "
        "axis by name or position; take_axis by position also with mode=clip/wrap and out-of-range positions. class = (operation, form, data kind, NaN pattern, label kind, ndim, axis position); trivial = none")
ANCHORS = ["align.sort_axis", "dimarraycls.take_axis", "dimarraycls.compress_axis", "missingvalues.dropna", "missingvalues.fillna",
           "missingvalues.setna", "missingvalues._matches"]
# entry points the workload calls itself; the other anchors are helpers behind them (counted as evidence only)
ANCHORS_REQUIRED = ["align.sort_axis", "dimarraycls.take_axis", "dimarraycls.compress_axis", "missingvalues.dropna", "missingvalues.fillna", "missingvalues.setna"]
FLOORS = {"quick": {"evaluations": 3000, "distinct": 1000, "outcome:dropna-minvalid": 300},
          "thorough": {"evaluations": 50000, "distinct": 1200}}
WHAT = ['sort', 'sortkey', 'take_axis', 'compress', 'dropna', 'dropna', 'fillna', 'setna', 'setna']


def shards(tier, seed, scale=1.0):
    return common.rand_shards(ID, tier, seed, scale, 8000, 200000)


def cases(desc):
    rng = common.rng_for(ID, desc)
    for i in range(desc["n"]):
        yield gen_case(rng)


def gen_case(rng):
    what = rng.choice(WHAT)
    nd = rng.randint(1, 4)
    dt = 'f' if what == 'dropna' else rng.choice('ffi')
    sp = gen.spec(rng, ndim=nd, dtype=dt, orders=None, maxsize=4, narrow=True)
    pat = 'none'
    v = sp["values"]
    if dt == 'f':
        pat = rng.choice(['none', 'some', 'slice', 'all', 'some'])
        if pat == 'some':
            v[np.array([rng.random() < 0.3 for _ in range(v.size)]).reshape(v.shape)] = np.nan
        elif pat == 'slice':
            q = rng.randrange(nd)
            ix = [slice(None)] * nd
            ix[q] = rng.randrange(v.shape[q])
            v[tuple(ix)] = np.nan
            v[np.array([rng.random() < 0.15 for _ in range(v.size)]).reshape(v.shape)] = np.nan
        elif pat == 'all':
            v[...] = np.nan
        if rng.random() < 0.2 and v.size:
            # infinities are values, not missing data
            for _ in range(rng.randint(1, 3)):
                j = rng.randrange(v.size)
                if v.ravel()[j] == v.ravel()[j]:
                    v.ravel()[j] = rng.choice([np.inf, -np.inf])
            pat += '+inf'
    k = rng.randrange(nd)
    lab = sp["labels"][k]
    n = len(lab)
    if what == 'dropna' and nd >= 2 and v.size // n >= 2 and rng.random() < 0.25:
        # one slice holding both infinities and no NaN: nothing is missing in it
        sl_ = np.take(v, rng.randrange(n), axis=k)
        if not np.isnan(sl_).any():
            ix_ = [slice(None)] * nd
            ix_[k] = rng.randrange(n)
            blk = v[tuple(ix_)]
            if not np.isnan(blk).any():
                blk.ravel()[0] = np.inf
                flat = blk.reshape(-1)
                flat[0], flat[1] = np.inf, -np.inf
                v[tuple(ix_)] = flat.reshape(blk.shape)
                pat += '+bothinf'
    c = {"what": what, "a": sp, "k": k, "by_pos": rng.random() < 0.5, "pat": pat, "neg_pos": rng.random() < 0.3}
    if what == 'sortkey':
        perm = rng.sample(range(n), n)
        c["ranktype"] = rng.choice(['int', 'int', 'frac', 'str'])
        if c["ranktype"] != 'int':
            # keys of mixed type / width: the first label's key is the integer 0 (or a one-letter string), the others are
            # fractions (longer strings) in rank order
            j = perm.index(0)
            perm[0], perm[j] = perm[j], perm[0]
        c["rank"] = perm          # rank of label i
        c["keyform"] = rng.choice(['dict', 'callable'])
    elif what == 'take_axis':
        c["ps"] = [rng.randrange(n) for _ in range(rng.randint(1, 5))]
        c["position"] = rng.random() < 0.5
        if c["position"] and rng.random() < 0.35:
            # NumPy's out-of-range modes, with negative and too-large positions: data and labels follow the same convention (NumPy's)
            c["mode"] = rng.choice(['clip', 'wrap'])
            c["ps"] = [rng.randrange(-n - 2, n + 3) for _ in range(rng.randint(1, 5))]
    elif what == 'compress':
        c["mask"] = np.array([rng.random() < 0.5 for _ in range(n)], dtype=bool)
        c["aslist"] = rng.random() < 0.3
    elif what == 'dropna':
        other = v.size // n
        c["minvalid"] = None if nd == 1 else rng.choice([None] + list(range(0, other + 1)))
    elif what == 'fillna':
        c["val"] = rng.choice([0, -99.5, 7, 0.1, 1e-3])
        if dt == 'f' and rng.random() < 0.3:
            # single precision data: the cells are still replaced by the given value (0.1 is not a float32), the others keep theirs
            sp["values"] = sp["values"].astype(np.float32)
            c["a"] = sp
        c["inplace"] = rng.random() < 0.5
    elif what == 'setna':
        cands = [x for x in v.ravel().tolist() if x == x] or [1.0]
        form = rng.choice(['scalar', 'list', 'mask', 'damask', 'mixed'])
        c["form"] = form
        c["inplace"] = rng.random() < 0.4
        if form == 'scalar':
            c["value"] = rng.choice(cands)
        elif form == 'list':
            c["value"] = [rng.choice(cands) for _ in range(rng.randint(0, 3))]       # no value listed: nothing is set
        else:
            c["mask"] = np.array([rng.random() < 0.4 for _ in range(v.size)], dtype=bool).reshape(v.shape)
            if form == 'mixed':
                c["value"] = rng.choice(cands)
    return c


def check(case, ctx):
    da = __import__("vp.boot", fromlist=["boot"]).boot()
    sp = case["a"]
    m = model.from_spec(sp)
    a = gen.build(sp)
    k = case["k"]
    d = m.dims[k]
    nd = m.ndim
    axis = (k - len(sp["dims"]) if case.get("neg_pos") else k) if case["by_pos"] else d
    lab = m.labels[k]
    n = len(lab)
    v = m.values
    what = case["what"]
    base = " on %s%s dims=%r labels[%r]=%s nan=%s" % (v.dtype, v.shape, m.dims, d, codec.short(lab, 60), case["pat"])
    klass = (what, case.get("form") or case.get("keyform") or case.get("minvalid") is not None, v.dtype.kind, case["pat"], sp["kinds"][k], nd, k)

    def moved(order):
        labs = [list(l) for l in m.labels]
        labs[k] = [lab[i] for i in order]
        return model.MA(np.take(v, list(order), axis=k) if len(order) else np.take(v, np.array([], dtype=int), axis=k), m.dims, labs)

    if what == 'sort':
        label = "a.sort_axis(axis=%r)" % (axis,) + base
        res, exc = ctx.call(label, (lambda: a.sort_axis(axis=axis)) if axis != 0 else (lambda: a.sort_axis()), operands=(a,), meta='carry', ambient=True)
        order = sorted(range(n), key=lambda i: lab[i])
        common.expect(ctx, ID, "sort", label, res, exc, exp=moved(order))
    elif what == 'sortkey':
        rt = case.get("ranktype", 'int')
        kv = (lambda r: r) if rt == 'int' else (lambda r: 0 if r == 0 else r * 0.25) if rt == 'frac' else (lambda r: 'a' if r == 0 else 'a%02d' % r)
        rank = {lab[i]: kv(r) for i, r in enumerate(case["rank"])}
        key = dict(rank) if case["keyform"] == 'dict' else (lambda x: rank[x.item() if isinstance(x, np.generic) else x])
        if case["keyform"] == 'dict' and sp["kinds"][k] != 's':
            key = {gen.np_labels([l], sp["kinds"][k])[0]: r for l, r in rank.items()}
            key.update(rank)
        label = "a.sort_axis(axis=%r, key=%s %s ranks %r)" % (axis, case["keyform"], rt, case["rank"]) + base
        res, exc = ctx.call(label, lambda: a.sort_axis(axis=axis, key=key), operands=(a,), meta='carry', ambient=True)
        order = sorted(range(n), key=lambda i: case["rank"][i])
        common.expect(ctx, ID, "sortkey", label, res, exc, exp=moved(order))
    elif what == 'take_axis':
        ps = case["ps"]
        if case["position"] and case.get("mode"):
            md = case["mode"]
            label = "a.take_axis(%r, axis=%r, indexing='position', mode=%r)" % (ps, axis, md) + base
            fn = lambda raw=list(ps): a.take_axis(raw, axis=axis, indexing='position', mode=md)
            ps = np.take(np.arange(n), ps, mode=md).tolist()
            ctx.outcomes['take_axis-mode-' + md] += 1
        elif case["position"]:
            label = "a.take_axis(%r, axis=%r, indexing='position')" % (ps, axis) + base
            fn = lambda: a.take_axis(ps, axis=axis, indexing='position')
        else:
            labs = [lab[p] for p in ps]
            label = "a.take_axis(%s, axis=%r)" % (codec.short(labs, 60), axis) + base
            fn = lambda: a.take_axis(labs, axis=axis)
        res, exc = ctx.call(label, fn, operands=(a,), meta='carry')
        common.expect(ctx, ID, "take_axis", label, res, exc, exp=moved(ps))
    elif what == 'compress':
        mk = case["mask"]
        arg = mk.tolist() if case["aslist"] else mk
        label = "a.compress_axis(%s, axis=%r)" % (mk.tolist(), axis) + base
        res, exc = ctx.call(label, lambda: a.compress_axis(arg, axis=axis), operands=(a,) + common.array_args(arg), meta='carry', ambient=True)
        common.expect(ctx, ID, "compress", label, res, exc, exp=moved([i for i in range(n) if mk[i]]))
    elif what == 'dropna':
        mv = case["minvalid"]
        other = v.size // n
        cnt = [int(np.isnan(np.take(v, i, axis=k)).sum()) for i in range(n)]
        keep = [i for i in range(n) if (cnt[i] == 0 if mv is None else (other - cnt[i]) >= mv)]
        if mv is not None:
            ctx.outcomes['dropna-minvalid'] += 1
            label = "a.dropna(axis=%r, minvalid=%r)" % (axis, mv) + base
            fn = lambda: a.dropna(axis=axis, minvalid=mv)
        else:
            label = "a.dropna(axis=%r)" % (axis,) + base
            fn = (lambda: a.dropna(axis=axis)) if (axis != 0 or nd > 1) else (lambda: a.dropna())
        res, exc = ctx.call(label, fn, operands=(a,), meta='carry', ambient=True)
        common.expect(ctx, ID, "dropna", label, res, exc, exp=moved(keep), must_be_da=True)
    elif what == 'fillna':
        val, inplace = case["val"], case["inplace"]
        label = "a.fillna(%r, inplace=%r)" % (val, inplace) + base
        before_axes = tuple(monitors.snap_axis(ax) for ax in a.axes)
        res, exc = ctx.call(label, lambda: a.fillna(val, inplace=inplace), operands=(a,), mutates=(a,) if inplace else (), meta=None if inplace else 'carry', ambient=True)
        e = v.copy() if v.dtype != np.float32 else v.astype(np.float64)
        if v.dtype.kind == 'f':
            e[np.isnan(v)] = val
        tgt = a if inplace else res
        if exc is not None or not common.is_da(tgt):
            ctx.v(ID, "fillna-raised", "%s raised/returned %r" % (label, exc if exc is not None else type(tgt).__name__))
        else:
            msg = model.compare(model.observe(tgt), model.MA(e, m.dims, m.labels), label)
            if msg:
                ctx.v(ID, "fillna", msg)
            if inplace and tuple(monitors.snap_axis(ax) for ax in a.axes) != before_axes:
                ctx.v(ID, "fillna-axes", "%s changed the axes" % label)
    else:
        form, inplace = case["form"], case["inplace"]
        if form == 'scalar':
            value = case["value"]
            mk = v == value
        elif form == 'list':
            value = list(case["value"])
            mk = np.zeros(v.shape, dtype=bool)
            for x in value:
                mk |= (v == x)
        elif form == 'mask':
            value = case["mask"].copy()
            mk = case["mask"]
        elif form == 'damask':
            value = da.DimArray(case["mask"].copy(), axes=[ax.copy() for ax in a.axes])
            mk = case["mask"]
        else:
            value = [case["value"], case["mask"].copy()]
            if case["inplace"] ^ (len(case["a"]["dims"]) % 2 == 0):
                value = value[::-1]          # the mask first, the value after
            mk = case["mask"] | (v == case["value"])
        label = "a.setna(%s %s, inplace=%r)" % (form, codec.short(case.get("value", '<mask>'), 60), inplace) + base
        res, exc = ctx.call(label, lambda: a.setna(value, inplace=inplace), operands=(a,) + common.array_args(value), mutates=(a,) if inplace else (), meta=None if inplace else 'carry', ambient=True)
        e = v.astype(float).copy()
        e[mk] = np.nan
        tgt = a if inplace else res
        if exc is not None or not common.is_da(tgt):
            ctx.v(ID, "setna-raised", "%s raised/returned %r" % (label, exc if exc is not None else type(tgt).__name__))
        else:
            msg = model.compare(model.observe(tgt), model.MA(e, m.dims, m.labels), label)
            if msg:
                ctx.v(ID, "setna", msg)
            elif mk.any() and tgt.values.dtype.kind != 'f':
                ctx.v(ID, "setna-dtype", "%s: dtype %s after setting NaN" % (label, tgt.values.dtype))
    return klass
