"""C06 - align() is a set union / intersection that neither invents nor loses data."""
import numpy as np
from .. import gen, model, codec
from . import common

ID = "C06"
LEVEL = "exploration"
RULE = ("lists of 1-4 inputs (DimArrays, sometimes Datasets) over a pool of 4 dimension names with any overlap of dims; per dimension a label "
        "kind {int,float,str,int-vs-float}; per input label subsets of a small pool (so sets come out equal/overlapping/nested/disjoint/"
        "empty) in order {inc,dec,shuffled}; join x sort x axis in {None, each dim}. class = (n inputs, join, sort, axis given, per dim "
        "(kind, relation of the label sets, set of input directions)); trivial = single input without sort")
ANCHORS = ["align.align", "align._get_aligned_axes", "align._common_axis", "axes.union", "axes.intersection", "align.reindex_axis"]
# entry points the workload calls itself; the other anchors are helpers behind them (counted as evidence only)
ANCHORS_REQUIRED = ["align.align"]
FLOORS = {"quick": {"evaluations": 1500, "distinct": 400, "outcome:inner-joins": 100, "outcome:results-checked": 2000},
          "thorough": {"evaluations": 50000, "distinct": 2000}}
POOL = ['x', 'y', 'z', 'w']


def shards(tier, seed, scale=1.0):
    return common.rand_shards(ID, tier, seed, scale, 8000, 150000)


def cases(desc):
    rng = common.rng_for(ID, desc)
    for i in range(desc["n"]):
        yield gen_case(rng)


def dim_labels(rng, kind, allow_empty, off=0):
    k = kind
    if kind == 'if':
        k = rng.choice('if')
    if k == 'i':
        pool = list(range(0, 7))
    elif k == 'f':
        pool = [x / 2.0 for x in range(0, 13)] if kind == 'if' else [x / 2.0 for x in range(0, 7)]
    else:
        pool = list('abcdefg')
    if off and k in 'if':
        # labels beyond 2**24 (dates written as integers, ...): exact in int64 and float64 but not in a 32-bit type
        pool = [off + x for x in pool]
    n = rng.choice([0] if allow_empty and rng.random() < 0.2 else [1, 2, 2, 3, 3, 4])
    lab = gen.reorder(rng, sorted(rng.sample(pool, n)), rng.choice(['inc', 'dec', 'shuf']))
    return lab, k


def gen_input(rng, kinds, allow_empty, base=None, off=0):
    nd = rng.randint(0, 3)
    dims = rng.sample(POOL, nd)
    labs, ks, lts = [], [], []
    for d in dims:
        if base is not None and d in base:
            l, k, lt = base[d] if len(base[d]) == 3 else tuple(base[d]) + (None,)
        else:
            o_ = off
            if off and kinds[d] == 'if' and rng.random() < 0.5:
                o_ = 0          # small labels next to the other inputs' large ones (this input's float labels may then be single precision)
            l, k = dim_labels(rng, kinds[d], allow_empty, o_)
            lt = gen.label_dtype(rng, l, k, p=0.25 if o_ == off else 0.6)
            l = gen.extremes(rng, l, lt)
        labs.append(l)
        ks.append(k)
        lts.append(lt)
    sp = {"dims": dims, "labels": labs, "kinds": ks, "ldtypes": lts,
          "values": gen.values(rng, tuple(len(l) for l in labs), rng.choice('ffi'))}
    if nd and rng.random() < 0.2:
        # the input is a positional slice of a bigger array whose axis ordering has been queried before
        q = rng.randrange(nd)
        if ks[q] != 's' and len(labs[q]) >= 1 and lts[q] is None:
            sp["derive"] = {"dim": q, "extra": [max(labs[q]) + 10 + rng.randint(0, 3)] if ks[q] == 'i' else [max(labs[q]) + 10.5]}
    return sp


def gen_case(rng):
    kinds = {d: rng.choice(['i', 'f', 's', 'if']) for d in POOL}
    allow_empty = rng.random() < 0.3
    off = 20200000 if rng.random() < 0.15 else 0
    n = rng.randint(1, 4)
    inputs = []
    for i in range(n):
        if rng.random() < 0.15:
            # a Dataset: variables share labels per dim
            base = {}
            vs = {}
            for name in rng.sample(['u', 'v', 'q'], rng.randint(1, 2)):
                sp = gen_input(rng, kinds, allow_empty, base, off)
                for d, l, k, lt in zip(sp["dims"], sp["labels"], sp["kinds"], sp["ldtypes"]):
                    base[d] = (l, k, lt)
                vs[name] = sp
            inputs.append({"ds": vs})
        else:
            inputs.append(gen_input(rng, kinds, allow_empty, off=off))
    alldims = []
    for inp in inputs:
        for sp in (inp["ds"].values() if "ds" in inp else [inp]):
            for d in sp["dims"]:
                if d not in alldims:
                    alldims.append(d)
    return {"inputs": inputs, "join": rng.choice(['outer', 'outer', 'inner']), "sort": rng.random() < 0.4,
            "axis": rng.choice([None, None] + alldims) if alldims else None, "kinds": kinds, "as_tuple": rng.random() < 0.3}


def input_axes(inp):
    """{dim: labels} of an input (array or dataset)"""
    out = {}
    for sp in (inp["ds"].values() if "ds" in inp else [inp]):
        for d, l in zip(sp["dims"], sp["labels"]):
            out.setdefault(d, l)
    return out


def relation(sets):
    if len(sets) < 2:
        return 'single'
    if any(len(s) == 0 for s in sets):
        return 'empty'
    fs = [frozenset(map(str, s)) for s in sets]
    if all(f == fs[0] for f in fs):
        return 'equal'
    inter = frozenset.intersection(*fs)
    if not inter:
        return 'disjoint'
    if any(all(f <= g for f in fs) for g in fs):
        return 'nested'
    return 'overlap'


def build_input(sp):
    """the array described by sp; if sp['derive'] is set it is obtained as big.ix[..., 1:, ...] of an array with one more
    (larger) label in front, after the ordering of big's axes has been queried - same observable content, other history"""
    da = __import__("vp.boot", fromlist=["boot"]).boot()
    dv = sp.get("derive")
    if not dv:
        return gen.build(sp)
    q = dv["dim"]
    big = dict(sp)
    big["labels"] = [list(l) for l in sp["labels"]]
    big["labels"][q] = list(dv["extra"]) + big["labels"][q]
    v = np.asarray(sp["values"])
    pad = np.take(v, [0] * len(dv["extra"]), axis=q) * 0 - 7
    big["values"] = np.concatenate([pad, v], axis=q)
    big["prime"] = True
    b = gen.build(big)
    idx = [slice(None)] * v.ndim
    idx[q] = slice(len(dv["extra"]), None)
    r = b.ix[tuple(idx)] if v.ndim > 1 else b.ix[idx[0]]
    return r


def check(case, ctx):
    da = __import__("vp.boot", fromlist=["boot"]).boot()
    inputs = case["inputs"]
    objs, mods = [], []
    for inp in inputs:
        if "ds" in inp:
            ds = da.Dataset()
            for k, sp in inp["ds"].items():
                ds[k] = build_input(sp)
            objs.append(ds)
            mods.append({k: model.from_spec(sp) for k, sp in inp["ds"].items()})
        else:
            objs.append(build_input(inp))
            mods.append(model.from_spec(inp))
    import zlib
    for i_, o_ in enumerate(objs):
        common.set_tols(o_, zlib.crc32(repr(input_axes(inputs[i_])).encode()) + i_, ctx.outcomes)
        common.set_fillattrs(o_, zlib.crc32(repr(input_axes(inputs[i_])).encode()) + i_ + 1, ctx.outcomes)
    join, sort, axis = case["join"], case["sort"], case["axis"]
    if join == 'inner':
        ctx.outcomes['inner-joins'] += 1
    axs = [input_axes(inp) for inp in inputs]
    desc = "align(%s, join=%r, sort=%r, axis=%r)" % (codec.short([{d: l for d, l in a.items()} for a in axs], 300), join, sort, axis)
    seq = tuple(objs) if case["as_tuple"] else list(objs)
    res, exc = ctx.call(desc, lambda: da.align(seq, join=join, sort=sort, axis=axis), operands=tuple(objs), containers=(seq,), ambient=True)
    # "no input array is modified" is part of this property's statement
    for v in ctx.viol:
        if v["property"] == "C15" and v["key"].startswith(("operand-mutated", "input-container-modified")) and not v.get("_c06"):
            v["_c06"] = True
            ctx.viol.append({"property": ID, "key": "input-modified" + (":sort" if sort else ""), "msg": v["msg"], "_c06": True})
    alldims = []
    for a in axs:
        for d in a:
            if d not in alldims:
                alldims.append(d)
    sel = [axis] if axis is not None else alldims
    rels = []
    for d in alldims:
        sets = [a[d] for a in axs if d in a]
        rels.append((case["kinds"][d], relation(sets), tuple(sorted(set(str(model.strict_dir(s)) for s in sets)))))
    klass = (len(inputs), sum(1 for i in inputs if "ds" in i), join, sort, axis is not None, tuple(sorted(rels)))
    if exc is not None:
        ctx.v(ID, "raised:" + type(exc).__name__, "%s raised %s: %s" % (desc, type(exc).__name__, str(exc)[:200]))
        return klass
    if not isinstance(res, (list, tuple)) or len(res) != len(objs):
        ctx.v(ID, "bad-return", "%s returned %s" % (desc, type(res).__name__))
        return klass
    # expected label sets
    common_labels = {}
    for d in sel:
        having = [a[d] for a in axs if d in a]
        if join == 'outer':
            exp = model.uniq_union(*having)
        else:
            exp = [x for x in having[0] if all(model.has_label(h, x) for h in having[1:])]
        dirs = set(model.strict_dir(h) for h in having)
        first = None
        for i, (r, a) in enumerate(zip(res, axs)):
            if d not in a:
                continue
            if d not in r.dims:
                ctx.v(ID, "dim-lost", "%s: result %d lost dimension %r" % (desc, i, d))
                continue
            got = r.axes[d].values.tolist()
            if any(model.has_label(got[:j], x) for j, x in enumerate(got)):
                ctx.v(ID, "label-repeated", "%s: result %d has a repeated label on %r: %r" % (desc, i, d, got))
            elif len(got) != len(exp) or not all(model.has_label(exp, x) for x in got):
                ctx.v(ID, "label-set", "%s: result %d labels on %r are %r, expected the %s %r" % (
                    desc, i, d, got, 'union' if join == 'outer' else 'intersection', exp))
            if first is None:
                first = got
            elif not model.labels_eq(got, first):
                ctx.v(ID, "not-identical", "%s: results disagree on %r: %r vs %r" % (desc, d, first, got))
            if sort:
                if model.strict_dir(got) not in ('inc', 'any'):
                    ctx.v(ID, "not-sorted", "%s: sort=True but labels on %r are %r" % (desc, d, got))
            elif dirs == {'inc'} or dirs == {'dec'}:
                if model.strict_dir(got) not in (list(dirs)[0], 'any'):
                    ctx.v(ID, "direction", "%s: all inputs are %s on %r but the result is %r" % (desc, list(dirs)[0], d, got))
            elif 'any' in dirs and len(dirs - {'any'}) == 1:
                ctx.relaxed['direction-with-singleton-input'] += 1
    # per input: dims, untouched dims, cells
    for i, (r, mo, inp) in enumerate(zip(res, mods, inputs)):
        pairs = []
        if "ds" in inp:
            if not common.is_ds(r):
                ctx.v(ID, "type", "%s: result %d is %s, expected Dataset" % (desc, i, type(r).__name__))
                continue
            if sorted(r.keys()) != sorted(mo.keys()):
                ctx.v(ID, "ds-keys", "%s: result %d has variables %r, expected %r" % (desc, i, sorted(r.keys()), sorted(mo.keys())))
                continue
            for k in mo:
                pairs.append((r[k], mo[k], "result %d variable %r" % (i, k)))
        else:
            if not common.is_da(r):
                if mo.ndim == 0:
                    pairs.append((r, mo, "result %d" % i))
                else:
                    ctx.v(ID, "type", "%s: result %d is %s, expected DimArray" % (desc, i, type(r).__name__))
                    continue
            else:
                pairs.append((r, mo, "result %d" % i))
        for robj, src, what in pairs:
            ctx.outcomes['results-checked'] += 1
            got = common.as_ma(robj)
            what = "%s: %s" % (desc, what)
            if tuple(got.dims) != tuple(src.dims):
                ctx.v(ID, "dims-changed", "%s: dims %r, input has %r" % (what, got.dims, src.dims))
                continue
            for d, lg, ls in zip(got.dims, got.labels, src.labels):
                if d not in sel and not model.labels_eq(lg, ls):
                    ctx.v(ID, "unselected-axis-changed", "%s: labels of %r (not selected) changed from %r to %r" % (what, d, ls, lg))
            msg = model.check_cells_from_source(got, src, what)
            if msg:
                ctx.v(ID, "cells", msg)
                continue
            # every input cell whose labels all survive must appear (follows from the label-set check + cells);
            # dtype: no fill needed => unchanged kind
            filled = any(not all(model.has_label(ls, x) for x in lg) for lg, ls in zip(got.labels, src.labels))
            if not filled and got.values.dtype.kind != src.values.dtype.kind:
                ctx.v(ID, "dtype", "%s: dtype %s although no label was added (input %s)" % (what, got.values.dtype, src.values.dtype))
    if len(inputs) == 1 and not sort:
        return None
    return klass
