"""C14 - Dataset-wide operations equal the per-variable operations (differential monitor).

For a generated Dataset the same operation is applied to the Dataset and, separately, to
free-standing copies of its variables (built from the same spec, never through the Dataset);
each result variable must equal the DimArray result, variables lacking the dimension must be
unchanged, the result must satisfy the shared-axes invariant (M-DS) and carry dataset attrs
where the statement says so."""
import numpy as np
from .. import gen, model, codec, monitors
from . import common

ID = "C14"
LEVEL = "exploration"
RULE = ("Datasets of 1-4 variables over 1-3 dims (some variables lack the operated dim, some are 0-d), label kinds int/float/str in any order, "
        "attrs on dataset and variables; operation in {take/.loc/.sel/.ix/.isel with scalar, list, slice, by dict / axis= name / position; "
        "mean/std/var/median/sum(axis); take_axis; sort_axis; reindex_axis (subset, superset with missing labels, axis by name / position, "
        "fill); interp_axis (in and out of range); ds op ds' (equal / differing labels), ds op scalar, -ds; stack_ds / concatenate_ds of "
        "2-3 Datasets as list or dict}; sort_axis also over a non-increasing axis with tied labels. class = (operation, form, #vars lacking the dim, has 0-d var, label kind, order); trivial = none")
ANCHORS = ["dataset.take", "dataset._apply_dimarray_axis", "dataset.reduce_axis", "dataset.reindex_axis", "dataset.interp_axis",
           "dataset._binary_op", "dataset._unary_op", "dataset.stack_ds", "dataset.concatenate_ds", "dataset.take_axis", "dataset.sort_axis"]
# entry points the workload calls itself; the other anchors are helpers behind them (counted as evidence only)
ANCHORS_REQUIRED = ["dataset.take", "dataset.reindex_axis", "dataset.interp_axis", "dataset.stack_ds", "dataset.concatenate_ds", "dataset.take_axis", "dataset.sort_axis"]
FLOORS = {"quick": {"evaluations": 1500, "distinct": 500, "outcome:variables-compared": 3000, "outcome:variables-lacking-dim": 300},
          "thorough": {"evaluations": 40000, "distinct": 2000}}
WHAT = ['take', 'take', 'loc', 'sel', 'ix', 'isel', 'take_pos', 'reduce', 'take_axis', 'sort_axis', 'reindex', 'reindex', 'interp', 'interp',
        'arith', 'arith', 'arith_scalar', 'neg', 'stack_ds', 'concat_ds']
PYOP = {"add": lambda x, y: x + y, "sub": lambda x, y: x - y, "mul": lambda x, y: x * y, "truediv": lambda x, y: x / y}


def shards(tier, seed, scale=1.0):
    return common.rand_shards(ID, tier, seed, scale, 8000, 120000)


def cases(desc):
    rng = common.rng_for(ID, desc)
    for i in range(desc["n"]):
        yield gen_case(rng)


def gen_ds(rng, numeric=False, dims=None, axes=None, keys=None, alldim=None):
    dims = dims or rng.sample(gen.DIMS, rng.randint(1, 3))
    if axes is None:
        axes = {}
        for d in dims:
            k = rng.choice('if') if numeric else rng.choice('ifs')
            axes[d] = (gen.labels(rng, rng.randint(1, 4), k, rng.choice(['inc', 'dec', 'shuf'])), k)
    vs = {}
    keys = keys or list('abcd')[:rng.randint(1, 4)]
    for k in keys:
        if isinstance(k, tuple):
            k, vd = k
        else:
            vd = rng.sample(dims, rng.randint(0, len(dims)))
            if alldim and alldim not in vd:
                vd.insert(rng.randint(0, len(vd)), alldim)
        vs[k] = {"dims": list(vd), "labels": [list(axes[d][0]) for d in vd], "kinds": [axes[d][1] for d in vd],
                 "values": gen.values(rng, tuple(len(axes[d][0]) for d in vd), rng.choice('ffi'), nan=rng.choice([0, 0, 0.25])), "attrs": {"vm": k}}
    return {"axes": axes, "vars": vs, "dims": list(dims)}


def build_ds(dsp):
    da = __import__("vp.boot", fromlist=["boot"]).boot()
    ds = da.Dataset()
    for k, sp in dsp["vars"].items():
        ds[k] = gen.build(sp)
    ds.attrs['dm'] = 'D'
    return ds


def gen_case(rng):
    what = rng.choice(WHAT)
    numeric = what in ('interp',)
    dsp = gen_ds(rng, numeric=numeric, alldim=None)
    used = [d for d in dsp["dims"] if any(d in v["dims"] for v in dsp["vars"].values())]
    if not used:
        dsp = gen_ds(rng, numeric=numeric, dims=dsp["dims"], keys=["a", "b"], alldim=dsp["dims"][0])
        used = [d for d in dsp["dims"] if any(d in v["dims"] for v in dsp["vars"].values())]
    d = rng.choice(used)
    lab, kind = dsp["axes"][d]
    n = len(lab)
    if what in ('reindex', 'take_axis') and kind == 's' and n >= 2 and rng.random() < 0.2:
        # a label occurring twice on the operated axis: whatever the DimArray operation makes of it, the Dataset one must agree
        lab = list(lab)
        lab[-1] = lab[0]
        dsp["axes"][d] = (lab, kind)
        for v_ in dsp["vars"].values():
            for j_, q_ in enumerate(v_["dims"]):
                if q_ == d:
                    v_["labels"][j_] = list(lab)
    c = {"what": what, "ds": dsp, "d": d, "by_pos": rng.random() < 0.4}
    if what in ('take', 'loc', 'sel'):
        form = rng.choice(['scalar', 'list', 'slice', 'multi'])
        if form == 'scalar':
            c["idx"] = {d: lab[rng.randrange(n)]}
        elif form == 'list':
            c["idx"] = {d: [lab[rng.randrange(n)] for _ in range(rng.randint(1, 3))]}
        elif form == 'slice':
            i, j = sorted([rng.randrange(n), rng.randrange(n)])
            c["idx"] = {d: slice(lab[i], lab[j])} if (kind == 's' or model.direction(lab) != 'dec') else {d: slice(lab[i], lab[j])}
        else:
            c["idx"] = {q: dsp["axes"][q][0][rng.randrange(len(dsp["axes"][q][0]))] if rng.random() < 0.5 else
                        [dsp["axes"][q][0][rng.randrange(len(dsp["axes"][q][0]))]] for q in used}
        c["form"] = form
        c["spelling"] = rng.choice(['dict', 'axis']) if (what == 'take' and form != 'multi') else 'dict'
        if what == 'take' and rng.random() < 0.35:
            ks_ = list(dsp["vars"])
            c["names"] = rng.sample(ks_, rng.randint(1, len(ks_)))          # only these variables, the index still refers to the dataset's dimensions
    elif what in ('ix', 'isel', 'take_pos'):
        form = rng.choice(['scalar', 'list', 'slice'])
        c["idx"] = {d: rng.randrange(n) if form == 'scalar' else [rng.randrange(n) for _ in range(rng.randint(1, 3))] if form == 'list'
                    else slice(rng.randint(0, n), rng.choice([None, rng.randint(0, n)]))}
        c["form"] = form
    elif what == 'reduce':
        c["f"] = rng.choice(['mean', 'std', 'var', 'median', 'sum'])
        c["axis_none"] = rng.random() < 0.2       # ds.mean(axis=None): every variable reduced to a scalar
    elif what == 'take_axis':
        c["labels"] = [lab[rng.randrange(n)] for _ in range(rng.randint(1, 4))]
        c["position"] = rng.random() < 0.3
        if c["position"]:
            c["labels"] = [rng.randrange(n) for _ in range(rng.randint(1, 4))]
    elif what == 'reindex':
        mode = rng.choice(['subset', 'perm', 'superset', 'superset', 'disjoint'])
        new = rng.sample(lab, rng.randint(1, n)) if mode == 'subset' else list(lab)
        if mode == 'perm':
            rng.shuffle(new)
        if mode in ('superset', 'disjoint'):
            if mode == 'disjoint':
                new = []
            for _ in range(rng.randint(1, 2)):
                nl = gen.absent_label(rng, lab + new, kind)
                if kind == 'i' and rng.random() < 0.4:
                    nl = rng.choice(lab) + 0.5          # fractional label on an integer axis
                new.insert(rng.randint(0, len(new)), nl)
        c["new"] = new
        c["mode"] = mode
        c["as_axis"] = rng.random() < 0.25
        c["fill"] = rng.choice([None, None, -99.0])
    elif what == 'interp':
        lo, hi = min(lab), max(lab)
        pts = [lo, hi, (lo + hi) / 2.0, lo + 0.25, hi - 0.25]
        if rng.random() < 0.5:
            pts += [lo - 1.5, hi + 2]
            c["range"] = 'outside'
        else:
            c["range"] = 'inside'
        rng.shuffle(pts)
        c["new"] = [float(x) for x in pts[:rng.randint(1, len(pts))]]
        if c["range"] == 'outside' and not any(x < lo or x > hi for x in c["new"]):
            c["new"].append(hi + 2.0)
        c["fills"] = rng.choice([None, (-3.5, 7.5)])
    elif what in ('arith', 'arith_scalar'):
        c["op"] = rng.choice(list(PYOP))
        if what == 'arith':
            same = rng.random() < 0.5
            if same:
                other = gen_ds(rng, dims=dsp["dims"], axes=dsp["axes"], keys=[(k, v["dims"]) for k, v in dsp["vars"].items()])
            else:
                axes2 = {}
                for q, (l, k) in dsp["axes"].items():
                    if rng.random() < 0.6:
                        l2 = [x for x in l if rng.random() < 0.7] + [gen.absent_label(rng, l, k)]
                        l2 = gen.reorder(rng, sorted(l2), rng.choice(['inc', 'dec', 'shuf']))
                    else:
                        l2 = list(l)
                    axes2[q] = (l2, k)
                other = gen_ds(rng, dims=dsp["dims"], axes=axes2, keys=[(k, v["dims"]) for k, v in dsp["vars"].items()])
            if rng.random() < 0.3 and len(other["vars"]) > 1:
                # differing variable sets: the result holds the variables both datasets have
                del other["vars"][rng.choice(list(other["vars"]))]
            if rng.random() < 0.3 and other["dims"]:
                # ... also when a variable that only ds has is named like a dimension (ds2[name] then yields that axis' labels)
                dn = rng.choice([q for q in other["dims"]])
                if dn not in dsp["vars"]:
                    extra = gen_ds(rng, dims=dsp["dims"], axes=dsp["axes"], keys=[(dn, [q for q in dsp["dims"] if rng.random() < 0.6])])
                    dsp["vars"][dn] = extra["vars"][dn]
                    c["dim_named_variable"] = dn
            c["other"] = other
            c["same_labels"] = same
        else:
            c["scalar"] = rng.choice([2, 0.5, 3])
    elif what in ('stack_ds', 'concat_ds'):
        nds = rng.randint(2, 3)
        alldim = d if what == 'concat_ds' else None
        first = gen_ds(rng, dims=dsp["dims"], axes=dsp["axes"], alldim=alldim)
        lst = [first]
        for j in range(1, nds):
            axes2 = dict(first["axes"])
            if what == 'concat_ds':
                l, k = first["axes"][d]
                new = []
                for _ in range(rng.randint(1, 3)):
                    new.append(gen.absent_label(rng, l + new, k))
                axes2[d] = (new, k)
            if rng.random() < 0.4 and [q for q in first["dims"] if q != (d if what == 'concat_ds' else None)]:
                # differing secondary axis: needs align=True, is refused without
                q = rng.choice([q for q in first["dims"] if q != (d if what == 'concat_ds' else None)])
                l, k = first["axes"][q]
                l2 = [x for x in l if rng.random() < 0.7] + [gen.absent_label(rng, l, k)]
                axes2[q] = (gen.reorder(rng, sorted(l2), rng.choice(['inc', 'dec', 'shuf'])), k)
                c["align"] = True
                c["misaligned"] = True
            lst.append(gen_ds(rng, dims=first["dims"], axes=axes2, keys=[(k, v["dims"]) for k, v in first["vars"].items()]))
        c["list"] = lst
        if c.get("misaligned") and rng.random() < 0.3:
            c["align"] = False          # must then be refused, as stack / concatenate of the variables are
        c["sort"] = c.get("align", False) and rng.random() < 0.5
        c["keys"] = rng.choice([None, rng.sample(['p', 'q', 'r'], nds), rng.sample([10, 20, 30], nds)])
        c["as_dict"] = what == 'stack_ds' and c["keys"] is not None and rng.random() < 0.4
    return c


def cmp_var(ctx, label, k, got, exp, lacks, **tol):
    ctx.outcomes['variables-compared'] += 1
    if lacks:
        ctx.outcomes['variables-lacking-dim'] += 1
    g = common.as_ma(got)
    e = common.as_ma(exp)
    msg = model.compare(g, e, "%s: variable %r%s" % (label, k, " (lacks the dimension: must be unchanged)" if lacks else ""), **tol)
    if msg:
        ctx.v(ID, "variable-differs" + (":lacking-dim" if lacks else ""), msg)
        return False
    return True


def check(case, ctx):
    da = __import__("vp.boot", fromlist=["boot"]).boot()
    what = case["what"]
    dsp = case["ds"]
    d = case["d"]
    unop = '-'
    if what == 'neg':
        # the three unary operators, on variables of several value types (bool flags, small integers next to the float ones)
        import zlib, copy as _copy
        zz = zlib.crc32(repr(sorted(dsp["axes"].items())).encode())
        unop = ['-', '-', '+', '~'][zz % 4]
        dsp = _copy.deepcopy(dsp)
        for j_, (k_, sp_) in enumerate(sorted(dsp["vars"].items())):
            v_ = np.asarray(sp_["values"])
            fin = np.nan_to_num(v_.astype(float), nan=0.0)
            if unop == '~':
                sp_["values"] = (fin % 2 == 0) if (zz + j_) % 2 else fin.astype(np.int64)
            elif (zz + j_) % 3 == 0:
                sp_["values"] = (fin % 100).astype([np.int8, np.uint8, np.float32][(zz // 3 + j_) % 3])
        ctx.outcomes['unary-' + {'-': 'neg', '+': 'pos', '~': 'invert'}[unop]] += 1
    ds = build_ds(dsp)
    free = {k: gen.build(sp) for k, sp in dsp["vars"].items()}     # free-standing twins
    if what in ('reindex', 'sort_axis', 'reduce', 'arith', 'arith_scalar', 'neg', 'stack_ds', 'concat_ds'):
        # (operations that match labels exactly: a look-up tolerance on an axis changes nothing, for the Dataset as for its variables)
        import zlib
        z_ = zlib.crc32(repr(sorted(dsp["axes"].items())).encode())
        common.set_tols(ds, z_, ctx.outcomes)
        for f_ in free.values():
            common.set_tols(f_, z_)
    if what == 'sort_axis' and d in ds.dims and ds.axes[d].values.dtype.kind in 'if':
        import zlib
        if zlib.crc32(repr(dsp["axes"][d][0]).encode()) % 4 == 0:
            # numbers held in an object array (an axis that once held a str label, or was merged with one): still ordered by value
            ds.axes[d].values = ds.axes[d].values.astype(object)
            for f_ in free.values():
                if d in f_.dims:
                    f_.axes[d].values = f_.axes[d].values.astype(object)
            ctx.outcomes['sort_axis-object-dtype-numbers'] += 1
        elif zlib.crc32(repr(dsp["axes"][d][0]).encode()) % 4 == 1 and ds.axes[d].size >= 2:
            # a non-increasing axis with tied labels (60, 30, 30, 0): records at equal labels keep the order the variable's own sort gives them
            tv_ = np.sort(ds.axes[d].values)[::-1].copy()
            tv_[1 + (len(tv_) > 2)] = tv_[0 + (len(tv_) > 2)]
            ds.axes[d].values = tv_
            for f_ in free.values():
                if d in f_.dims:
                    f_.axes[d].values = tv_.copy()
            ctx.outcomes['sort_axis-nonincreasing-with-ties'] += 1
    dimpos = list(ds.dims).index(d) if d in ds.dims else None
    axis = dimpos if case["by_pos"] and dimpos is not None else d
    lab, kind = dsp["axes"][d]
    label = None
    tol = {}
    attrs_carried = False
    exp = None
    operands = [ds]
    if what in ('take', 'loc', 'sel', 'ix', 'isel', 'take_pos'):
        idx = case["idx"]
        attrs_carried = True
        pos = what in ('ix', 'isel', 'take_pos')
        if what == 'take':
            nkw = {"names": list(case["names"])} if case.get("names") else {}
            if case.get("spelling") == 'axis':
                label = "ds.take(%sindices=%s, axis=%r)" % ("names=%r, " % case["names"] if nkw else "", codec.short(idx[d], 60), axis)
                fn = lambda: ds.take(indices=idx[d], axis=axis, **nkw)
            else:
                label = "ds.take(%sindices=%s)" % ("names=%r, " % case["names"] if nkw else "", codec.short(idx, 100))
                fn = lambda: ds.take(indices=dict(idx), **nkw)
        elif what == 'loc':
            label = "ds.loc[%s]" % codec.short(idx, 100)
            fn = lambda: ds.loc[dict(idx)]
        elif what == 'sel':
            label = "ds.sel(**%s)" % codec.short(idx, 100)
            fn = lambda: ds.sel(**idx)
        elif what == 'ix':
            label = "ds.ix[%s]" % codec.short(idx, 100)
            fn = lambda: ds.ix[dict(idx)]
        elif what == 'isel':
            label = "ds.isel(**%s)" % codec.short(idx, 100)
            fn = lambda: ds.isel(**idx)
        else:
            label = "ds.take(indices=%s, axis=%r, indexing='position')" % (codec.short(idx[d], 60), axis)
            fn = lambda: ds.take(indices=idx[d], axis=axis, indexing='position')
        def expected(v):
            sub = {q: ix for q, ix in idx.items() if q in v.dims}
            if not sub:
                return v
            return v.take(sub, indexing='position' if pos else 'label')
    elif what == 'reduce':
        f = case["f"]
        if case.get("axis_none"):
            label = "ds.%s(axis=None)" % f
            fn = lambda: getattr(ds, f)(axis=None)
            expected = lambda v: getattr(v, f)(axis=None)
        else:
            label = "ds.%s(axis=%r)" % (f, axis)
            if axis == 0:
                label = "ds.%s()" % f
                fn = lambda: getattr(ds, f)()           # axis=0 (the dataset's first dimension) is the default
            else:
                fn = lambda: getattr(ds, f)(axis=axis)
            expected = lambda v: getattr(v, f)(axis=d) if d in v.dims else v
    elif what == 'take_axis':
        labs = case["labels"]
        attrs_carried = True
        if case["position"]:
            label = "ds.take_axis(%r, axis=%r, indexing='position')" % (labs, axis)
            fn = lambda: ds.take_axis(labs, axis=axis, indexing='position')
            expected = lambda v: v.take_axis(labs, axis=d, indexing='position') if d in v.dims else v
        else:
            label = "ds.take_axis(%s, axis=%r)" % (codec.short(labs, 60), axis)
            fn = lambda: ds.take_axis(labs, axis=axis)
            expected = lambda v: v.take_axis(labs, axis=d) if d in v.dims else v
    elif what == 'sort_axis':
        attrs_carried = True
        label = "ds.sort_axis(axis=%r)" % (axis,)
        fn = lambda: ds.sort_axis(axis=axis)
        expected = lambda v: v.sort_axis(axis=d) if d in v.dims else v
    elif what == 'reindex':
        attrs_carried = True
        new = gen.np_labels(case["new"], gen.kind_of(case["new"]) if kind != 's' else 's')
        kw = {} if case["fill"] is None else {"fill_value": case["fill"]}
        if case["as_axis"]:
            arg = da.Axis(new, d)
            label = "ds.reindex_axis(Axis(%s, %r)%s)" % (codec.short(case["new"], 60), d, kw or "")
            fn = lambda: ds.reindex_axis(arg, **kw)
        else:
            label = "ds.reindex_axis(%s, axis=%r%s)" % (codec.short(case["new"], 60), axis, kw or "")
            fn = lambda: ds.reindex_axis(new, axis=axis, **kw)
        expected = lambda v: v.reindex_axis(new, axis=d, **kw) if d in v.dims else v
    elif what == 'interp':
        attrs_carried = True
        new = np.array(case["new"])
        kw = {} if case["fills"] is None else {"left": case["fills"][0], "right": case["fills"][1]}
        label = "ds.interp_axis(%s, axis=%r%s) labels=%s" % (codec.short(case["new"], 80), axis, kw or "", codec.short(lab, 60))
        fn = lambda: ds.interp_axis(new, axis=axis, **kw)
        expected = lambda v: v.interp_axis(new, axis=d, **kw) if d in v.dims else v
        tol = dict(rtol=1e-12, atol=1e-9)
    elif what == 'arith':
        other = build_ds(case["other"])
        free2 = {k: gen.build(sp) for k, sp in case["other"]["vars"].items()}
        op = PYOP[case["op"]]
        operands.append(other)
        label = "ds %s ds2 (%s labels) axes=%s axes2=%s" % (case["op"], 'same' if case["same_labels"] else 'differing',
                                                          codec.short({q: l for q, (l, k) in dsp["axes"].items()}, 100),
                                                          codec.short({q: l for q, (l, k) in case["other"]["axes"].items()}, 100))
        fn = lambda: op(ds, other)
        expected = None
        exp = {k: op(free[k], free2[k]) for k in free if k in free2}
        if set(free) != set(free2):
            ctx.outcomes['arith-differing-variable-sets'] += 1
    elif what == 'arith_scalar':
        op = PYOP[case["op"]]
        s = case["scalar"]
        label = "ds %s %r" % (case["op"], s)
        fn = lambda: op(ds, s)
        expected = lambda v: op(v, s)
    elif what == 'neg':
        label = "%sds (value types %s)" % (unop, sorted(set(str(np.asarray(sp_["values"]).dtype) for sp_ in dsp["vars"].values())))
        uf_ = {'-': (lambda x: -x), '+': (lambda x: +x), '~': (lambda x: ~x)}[unop]
        fn = lambda: uf_(ds)
        expected = uf_
    else:
        lst = [build_ds(x) for x in case["list"]]
        frees = [{k: gen.build(sp) for k, sp in x["vars"].items()} for x in case["list"]]
        operands = lst
        keys = case["keys"]
        names = list(case["list"][0]["vars"])
        if what == 'stack_ds':
            akw = {"align": True, "sort": case.get("sort", False)} if case.get("align") else {}
            if case["as_dict"]:
                label = "stack_ds(dict keys=%r, axis='new', %s)" % (keys, akw)
                arg = dict(zip(keys, lst))
                fn = lambda: da.stack_ds(arg, axis='new', **akw)
            else:
                label = "stack_ds(list of %d, axis='new', keys=%r, %s)" % (len(lst), keys, akw)
                fn = lambda: da.stack_ds(lst, axis='new', keys=keys, **akw)
            # variables lacking a dimension are untouched by the datasets' alignment: align only what each variable has
            expected_all = lambda: {k: da.stack([f[k] for f in frees], axis='new', keys=keys, **akw) for k in names}
        else:
            akw = {"align": True, "sort": case.get("sort", False)} if case.get("align") else {}
            label = "concatenate_ds(list of %d, axis=%r, %s)" % (len(lst), d, akw)
            if list(lst[0].dims).index(d) == 0 and case["by_pos"]:
                fn = lambda: da.concatenate_ds(lst, **akw)          # axis=0 is the default
            else:
                fn = lambda: da.concatenate_ds(lst, axis=d, **akw)
            expected_all = lambda: {k: da.concatenate([f[k] for f in frees], axis=d, **akw) for k in names}
        if case.get("misaligned") and not case.get("align"):
            # differing secondary labels and no align: the DimArray functions refuse, so must the Dataset ones
            ctx.outcomes['joined-datasets-misaligned-no-align'] += 1
            res_, exc_ = ctx.call(label, fn, operands=tuple(operands))
            if exc_ is None:
                try:
                    expected_all()
                    refused = False
                except Exception:
                    refused = True
                if refused:
                    ctx.v(ID, "joined-misaligned-accepted:" + what, "%s joined datasets whose secondary axes differ although align was not asked for "
                          "(stack / concatenate of the variables raise)" % label)
            return (what, 'misaligned-no-align')
        try:
            exp = expected_all()
        except Exception as e:
            exp = None
            expected = lambda v: (_ for _ in ()).throw(e)
    label += " on Dataset(%s)" % ", ".join("%s:%r" % (k, tuple(v["dims"])) for k, v in (case["list"][0] if what in ('stack_ds', 'concat_ds') else dsp)["vars"].items())
    # expected first (on the free-standing twins), so that an exception there is attributed correctly
    exp_exc = None
    if exp is None:
        try:
            exp = {k: expected(v) for k, v in free.items()}
        except Exception as e:
            exp_exc = e
    res, exc = ctx.call(label, fn, operands=tuple(operands), ambient=what in ('reduce', 'sort_axis', 'reindex', 'interp', 'arith', 'arith_scalar', 'neg', 'stack_ds', 'concat_ds'))
    vars_ = (case["list"][0] if what in ('stack_ds', 'concat_ds') else dsp)["vars"]
    nlack = sum(1 for v in vars_.values() if d not in v["dims"])
    klass = (what, case.get("form") or case.get("mode") or case.get("range") or case.get("f") or case.get("op"), case["by_pos"], nlack,
             any(len(v["dims"]) == 0 for v in vars_.values()), kind, model.strict_dir(lab) or 'shuf', case.get("same_labels"))
    if exp_exc is not None:
        # the per-variable operation itself raises: the Dataset operation must not silently succeed with something else
        ctx.outcomes['dimarray-op-raises'] += 1
        if exc is None:
            ctx.relaxed['dataset op succeeded where the DimArray op raises'] += 1
        return klass
    if exc is not None:
        ctx.v(ID, "raised:%s:%s" % (what, type(exc).__name__), "%s raised %s: %s" % (label, type(exc).__name__, str(exc)[:200]))
        return klass
    if not common.is_ds(res):
        ctx.v(ID, "not-dataset", "%s returned %s" % (label, type(res).__name__))
        return klass
    if what == 'take' and case.get("names"):
        ctx.outcomes['take-with-names'] += 1
        exp = {k: exp[k] for k in case["names"]}
    if set(res.keys()) != set(exp.keys()):
        ctx.v(ID, "keys", "%s: variables %r, expected %r" % (label, sorted(res.keys()), sorted(exp.keys())))
        return klass
    for k in exp:
        lacks = what not in ('arith', 'arith_scalar', 'neg', 'stack_ds', 'concat_ds') and not case.get("axis_none") and d not in vars_[k]["dims"] and \
            not (what in ('take', 'loc', 'sel') and any(q in vars_[k]["dims"] for q in case["idx"]))
        if not cmp_var(ctx, label, k, dict.__getitem__(res, k), exp[k], lacks, **tol):
            break
    probs = monitors.ds_problems(res)
    if probs:
        ctx.v(ID, "result-invariant", "%s: result breaks the shared-axes rule: %s" % (label, probs[0]))
    if attrs_carried and monitors.freeze(res.attrs) != monitors.freeze({'dm': 'D'}):
        ctx.v(ID, "dataset-attrs:" + what, "%s: dataset attrs %r, expected {'dm': 'D'}" % (label, res.attrs))
    return klass
