"""C09 - cumulative, difference and arg-extremum operations keep axis bookkeeping right."""
import numpy as np
from .. import gen, model, codec
from . import common

ID = "C09"
LEVEL = "exploration"
RULE = ("numeric arrays of 1-4 dims, sizes 1-5 on the operated axis, label kinds int/float/str in any order; operation in {cumsum, cumprod, "
        "cum* with default axis, diff(n in 1..3, scheme in backward/forward/centered, keepaxis), argmin/argmax along an axis, over the "
        "whole array, with ties and NaNs, unsigned data and data holding its type's lowest value, skipna both ways; diff asked again after an in-place relabel}; axis by name / position / default. class = (operation, parameters, data kind, "
        "label kind of the axis, size of the axis vs n, ndim); trivial = none")
ANCHORS = ["transform.cumsum", "transform.cumprod", "transform.diff", "transform._append_nans", "transform.argmin", "transform.argmax"]
# entry points the workload calls itself; the other anchors are helpers behind them (counted as evidence only)
ANCHORS_REQUIRED = ["transform.cumsum", "transform.cumprod", "transform.diff", "transform.argmin", "transform.argmax"]
FLOORS = {"quick": {"evaluations": 3000, "distinct": 1000, "outcome:diff-keepaxis": 200, "outcome:arg-axis": 300, "outcome:arg-whole": 200},
          "thorough": {"evaluations": 50000, "distinct": 2500}}


def shards(tier, seed, scale=1.0):
    return common.rand_shards(ID, tier, seed, scale, 8000, 200000)


def cases(desc):
    rng = common.rng_for(ID, desc)
    for i in range(desc["n"]):
        yield gen_case(rng)


def gen_case(rng):
    what = rng.choice(['cumsum', 'cumprod', 'cumdefault', 'diff', 'diff', 'diff', 'argaxis', 'argaxis', 'argwhole', 'argties'])
    nd = rng.randint(1, 4)
    dims = rng.sample(gen.DIMS, nd)
    sizes = [rng.randint(1, 5) for _ in dims]
    dt = rng.choice('fi')
    sp = gen.spec(rng, dims=dims, sizes=sizes, dtype=dt, narrow=True)
    k = rng.randrange(nd)
    if what in ('argaxis', 'argwhole', 'argties', 'cumsum', 'cumprod', 'cumdefault'):
        gen.make_huge(sp, rng)
    c = {"what": what, "a": sp, "k": k, "by_pos": rng.random() < 0.5, "neg_pos": rng.random() < 0.3}
    if what == 'cumprod':
        sp["values"] = (sp["values"] % 5 + 1).astype(sp["values"].dtype)
    if what in ('cumsum', 'cumprod', 'cumdefault', 'diff') and rng.random() < 0.25:
        # narrow and boolean data: NumPy accumulates small integers and booleans in the platform integer
        nt = rng.choice(['int8', 'int16', 'int32', 'uint8', 'bool', 'float32'])
        vv = sp["values"]
        if what == 'diff':
            # differences that stay inside int8 (|third difference| <= 8 * 15): where NumPy would wrap around, "NumPy's n-th
            # difference" and the NaN-padded float computation of keepaxis legitimately disagree; unsigned and bool excluded
            nt = rng.choice(['int8', 'int16', 'int32', 'float32'])
            sp["values"] = (vv % 16).astype(nt)
        else:
            sp["values"] = (vv % 2 == 0) if nt == 'bool' else (vv % 120).astype(nt)
        c["narrow"] = nt
    if what == 'diff' and "narrow" not in c and rng.random() < 0.2:
        # 64-bit integers beyond 2**53 (differences are exact in int64, not after a detour through float64), complex data
        if rng.random() < 0.6:
            sp["values"] = (np.nan_to_num(np.asarray(sp["values"], dtype=float)) % 1000).astype(np.int64) + 2 ** 53 + 1
            c["narrow"] = 'int64>2**53'
        else:
            vv = np.nan_to_num(np.asarray(sp["values"], dtype=float))
            sp["values"] = vv + 1j * (vv % 7)
            c["narrow"] = 'complex128'
    if what == 'diff':
        c["n"] = rng.choice([1, 1, 2, 3])
        c["scheme"] = rng.choice(['backward', 'forward', 'centered'])
        c["keepaxis"] = rng.random() < 0.5
        c["default_axis"] = rng.random() < 0.15
        c["again_after_relabel"] = rng.random() < 0.25
        if c["scheme"] == 'centered':
            c["keepaxis"] = False
            if sp["kinds"][k if not c["default_axis"] else nd - 1] == 's':
                c["scheme"] = 'backward'
    if what in ('argaxis', 'argwhole', 'argties'):
        c["f"] = rng.choice(['argmin', 'argmax'])
        c["skipna"] = rng.random() < 0.4
        if what == 'argties' or rng.random() < 0.3:
            # ties and NaNs
            v = np.array([rng.choice([1., 2., 3., np.nan, 1., 3.]) for _ in range(int(np.prod(sizes)))]).reshape(sizes)
            if rng.random() < 0.5:
                v = np.where(np.isnan(v), 2., v)
                if dt == 'i':
                    v = v.astype(np.int64)
            sp["values"] = v
        vv_ = np.asarray(sp["values"])
        if rng.random() < 0.2 and vv_.dtype.kind in 'if' and not np.isnan(np.asarray(vv_, dtype=float)).any():
            # unsigned data and signed data holding the lowest value of its type (their negation wraps around)
            nt = rng.choice(['uint8', 'uint16', 'uint64', 'int8'])
            fv_ = np.asarray(vv_, dtype=float)
            sp["values"] = (fv_ % 256 - 128).astype('int8') if nt == 'int8' else (fv_ % 250).astype(nt)
            if nt == 'int8' and sp["values"].size:
                sp["values"].flat[rng.randrange(sp["values"].size)] = -128
            c["narrow"] = nt
        if what == 'argties':
            c["what"] = rng.choice(['argaxis', 'argwhole'])
    return c


def check(case, ctx):
    sp = case["a"]
    m = model.from_spec(sp)
    a = gen.build(sp)
    v = m.values
    nd = m.ndim
    what = case["what"]
    k = case["k"]
    axis = (k - nd if case.get("neg_pos") and what != 'diff' else k) if case["by_pos"] else m.dims[k]
    base = " on %s%s dims=%r labels[%d]=%s" % (v.dtype, v.shape, m.dims, k, codec.short(m.labels[k], 80))
    if what in ('cumsum', 'cumprod', 'cumdefault'):
        f = 'cumsum' if what == 'cumdefault' else what
        if what == 'cumdefault':
            f = 'cumsum' if case["by_pos"] else 'cumprod'
            if f == 'cumprod':
                v = (v % 5 + 1).astype(v.dtype)
                a.values[...] = v
                m = model.MA(v, m.dims, m.labels)
            label = "a.%s()" % f + base
            fn = lambda: getattr(a, f)()
            e = getattr(np, f)(v, axis=-1)
        else:
            label = "a.%s(axis=%r)" % (f, axis) + base
            fn = lambda: getattr(a, f)(axis=axis)
            e = getattr(np, f)(v, axis=k)
        res, exc = ctx.call(label, fn, operands=(a,), meta='carry', ambient=True)
        common.expect(ctx, ID, "cum", label, res, exc, exp=model.MA(e, m.dims, m.labels), must_be_da=True)
        return (what, v.dtype.kind, nd, v.shape[k] if what != 'cumdefault' else v.shape[-1])
    if what == 'diff':
        n, scheme, keep = case["n"], case["scheme"], case["keepaxis"]
        if case["default_axis"]:
            k = nd - 1
            label = "a.diff(n=%d, scheme=%r, keepaxis=%r)" % (n, scheme, keep) + base
            fn = lambda: a.diff(n=n, scheme=scheme, keepaxis=keep)
        elif scheme == 'backward' and n == 1 and not keep and case["by_pos"]:
            # all defaults (documented: backward difference of order 1, the axis shortened)
            label = "a.diff(axis=%r)" % (axis,) + base
            fn = lambda: a.diff(axis=axis)
        else:
            label = "a.diff(axis=%r, n=%d, scheme=%r, keepaxis=%r)" % (axis, n, scheme, keep) + base
            fn = lambda: a.diff(axis=axis, n=n, scheme=scheme, keepaxis=keep)
        lab = m.labels[k]
        if case.get("again_after_relabel") and sp["kinds"][k] != 's' and len(lab) >= 2 and list(lab) != list(lab)[::-1]:
            # the same difference asked once before, then the axis relabelled in place (its own labels in reverse order, so that they fit
            # the label type): the second answer goes by the labels the array has now
            ctx.call("first " + label, fn, operands=(a,), ambient=False)
            a.axes[k][:] = np.asarray(a.axes[k].values)[::-1].copy()
            lab = list(lab)[::-1]
            m = model.MA(v, m.dims, [lab if i == k else l for i, l in enumerate(m.labels)])
            label = label + " [asked before; then the axis relabelled in place to %s]" % codec.short(lab, 60)
            ctx.outcomes['diff-again-after-inplace-relabel'] += 1
        size = len(lab)
        e = np.diff(v, n=n, axis=k)
        labs = [list(l) for l in m.labels]
        if not keep:
            if scheme == 'backward':
                labs[k] = lab[n:]
            elif scheme == 'forward':
                labs[k] = lab[:max(size - n, 0)]
            else:
                el = [float(x) for x in lab]
                for _ in range(n):
                    el = [0.5 * (el[i] + el[i + 1]) for i in range(len(el) - 1)]
                labs[k] = el
            exp = model.MA(e, m.dims, labs)
        else:
            ctx.outcomes['diff-keepaxis'] += 1
            ee = np.full(v.shape, np.nan, dtype=complex if v.dtype.kind == 'c' else float)
            sl = [slice(None)] * nd
            if e.shape[k] > 0:
                sl[k] = slice(n, None) if scheme == 'backward' else slice(0, size - n)
                ee[tuple(sl)] = e
            exp = model.MA(ee, m.dims, labs)
        res, exc = ctx.call(label, fn, operands=(a,), meta='carry', ambient=True)
        ok = common.expect(ctx, ID, "diff" + ("-keepaxis" if keep else ""), label, res, exc, exp=exp, must_be_da=True)
        if ok and not keep and res.values.dtype.kind != e.dtype.kind:
            ctx.v(ID, "diff-dtype", "%s: dtype %s, NumPy gives %s" % (label, res.values.dtype, e.dtype))
        return ('diff', n, scheme, keep, v.dtype.kind, sp["kinds"][k], min(size, n + 1), nd, case["default_axis"])
    f, skipna = case["f"], case["skipna"]
    hasnan = v.dtype.kind == 'f' and bool(np.isnan(v).any())
    ext_f = {('argmin', False): np.min, ('argmin', True): np.nanmin, ('argmax', False): np.max, ('argmax', True): np.nanmax}[(f, skipna and v.dtype.kind == 'f')]
    npf = getattr(np, ('nan' if skipna and v.dtype.kind == 'f' else '') + f)
    if what == 'argaxis':
        ctx.outcomes['arg-axis'] += 1
        label = "a.%s(axis=%r, skipna=%r)" % (f, axis, skipna) + base + " values=%s" % model.brief(v, 12)
        res, exc = ctx.call(label, lambda: getattr(a, f)(axis=axis, skipna=skipna), operands=(a,), ambient=True)
        klass = ('argaxis', f, skipna, v.dtype.kind, sp["kinds"][k], hasnan, nd, v.shape[k])
        np_exc = None
        with np.errstate(all='ignore'):
            try:
                pos = npf(v, axis=k)
                ext = ext_f(v, axis=k)
            except ValueError as ex:
                np_exc = ex
        if np_exc is not None:
            # NumPy itself refuses (all-NaN slice with skipna): nothing is asserted about how the library refuses
            ctx.relaxed['numpy-raises-on-all-nan-slice'] += 1
            return klass
        if exc is not None:
            ctx.v(ID, "arg-raised:" + type(exc).__name__, "%s raised %s: %s" % (label, type(exc).__name__, str(exc)[:150]))
            return klass
        keep = [i for i in range(nd) if i != k]
        if nd > 1:
            if not common.is_da(res):
                ctx.v(ID, "arg-not-dimarray", "%s returned %s" % (label, type(res).__name__))
                return klass
            g = model.observe(res)
            if tuple(g.dims) != tuple(m.dims[i] for i in keep) or not all(model.labels_eq(x, m.labels[i]) for x, i in zip(g.labels, keep)):
                ctx.v(ID, "arg-axes", "%s: result dims %r labels %r, expected the remaining axes %r %r" % (
                    label, g.dims, g.labels, tuple(m.dims[i] for i in keep), [m.labels[i] for i in keep]))
                return klass
            got_labels = g.values
        else:
            if common.is_da(res) and res.ndim > 0:
                ctx.v(ID, "arg-axes", "%s: 1-D input gave a %d-d result" % (label, res.ndim))
                return klass
            got_labels = np.asarray(res.values if common.is_da(res) else res, dtype=object).reshape(())
        # indexing the array with the returned labels yields the extremum
        ext = np.asarray(ext)
        for pos_o in np.ndindex(*ext.shape):
            l = got_labels[pos_o]
            l = l.item() if isinstance(l, np.generic) else l
            try:
                p = model.locate(m.labels[k], l)
            except IndexError:
                ctx.v(ID, "arg-not-a-label", "%s: returned %r which is not a label of the axis %r" % (label, l, m.labels[k]))
                break
            full = list(pos_o)
            full.insert(k, p)
            gv = v[tuple(full)]
            if not model.lab_eq(gv, ext[pos_o]):
                ctx.v(ID, "arg-not-extremum", "%s: label %r returned for fibre %r selects %r, the %s is %r" % (label, l, pos_o, gv, f[3:], ext[pos_o]))
                break
        return klass
    # whole array
    ctx.outcomes['arg-whole'] += 1
    label = "a.%s(skipna=%r)" % (f, skipna) + base + " values=%s" % model.brief(v, 12)
    res, exc = ctx.call(label, lambda: getattr(a, f)(skipna=skipna), operands=(a,), ambient=True)
    klass = ('argwhole', f, skipna, v.dtype.kind, hasnan, nd)
    with np.errstate(all='ignore'):
        try:
            npf(v)
            ext = ext_f(v)
            np_exc = None
        except ValueError as ex:
            np_exc = ex
    if np_exc is not None:
        ctx.relaxed['numpy-raises-on-all-nan-slice'] += 1
        return klass
    if exc is not None:
        ctx.v(ID, "arg-raised:" + type(exc).__name__, "%s raised %s: %s" % (label, type(exc).__name__, str(exc)[:150]))
        return klass
    if not isinstance(res, tuple) or len(res) != nd:
        ctx.v(ID, "arg-whole-type", "%s returned %r, expected a tuple of %d labels" % (label, res, nd))
        return klass
    try:
        pos = tuple(model.locate(m.labels[i], (l.item() if isinstance(l, np.generic) else l)) for i, l in enumerate(res))
    except IndexError:
        ctx.v(ID, "arg-not-a-label", "%s: returned %r, not labels of the axes %r" % (label, res, m.labels))
        return klass
    if not model.lab_eq(v[pos], ext):
        ctx.v(ID, "arg-not-extremum", "%s: a[%r] = %r but the %s is %r" % (label, res, v[pos], f[3:], ext))
    # and through the library's own indexing
    g, gexc = ctx.call("a[a.%s()]" % f, lambda: a[res], operands=(a,))
    if gexc is not None or not model.lab_eq(g, ext):
        ctx.v(ID, "arg-index-roundtrip", "%s: a[returned labels %r] gives %r (%s), expected %r" % (label, res, g, type(gexc).__name__, ext))
    return klass
