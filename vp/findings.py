"""Classifier for known findings (genuine defects recorded rather than repaired).

known_findings.json is committed and never written at run time.  A `known` entry names a
predicate (a mechanism, written as a function over the case description and the violation)
— never a hash, a seed or random values — so that a *different* violation of the same
property is still reported.  `fixed` entries suppress nothing.
"""
import os
import json

VERIF = os.path.dirname(os.path.dirname(os.path.abspath(__file__)))


def load():
    p = os.path.join(VERIF, "known_findings.json")
    if not os.path.exists(p):
        return []
    with open(p) as f:
        return json.load(f)["findings"]


def classify(kf, v):
    from . import codec
    for f in kf:
        if f.get("status") != "known" or f["property"] != v["property"]:
            continue
        pred = PREDICATES.get(f["predicate"])
        if pred is None:
            continue
        try:
            case = codec.dec(v["case"]) if v.get("case") is not None else None
            if pred(case, v):
                return f
        except Exception:
            continue
    return None


# ---------------------------------------------------------------------------------------
# predicates: (decoded case, violation dict) -> bool
# ---------------------------------------------------------------------------------------
PREDICATES = {}


def predicate(fn):
    PREDICATES[fn.__name__] = fn
    return fn
