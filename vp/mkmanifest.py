"""regenerates MANIFEST.json from the workload modules that exist (run: python -m vp.mkmanifest)"""
import os
import json
import importlib

VERIF = os.path.dirname(os.path.dirname(os.path.abspath(__file__)))

TEXT = {}


def main():
    props = [json.loads(l) for l in open(os.path.join(VERIF, "properties.jsonl"))]
    checks = []
    na = []
    for p in props:
        pid = p["id"]
        try:
            W = importlib.import_module("vp.workloads." + pid.lower())
        except ImportError:
            na.append({"property_id": pid, "reason": "check not built yet in this session (runtime monitor planned, see DESIGN.md section 5)"})
            continue
        if getattr(W, "NOT_CLAIMED", None):
            na.append({"property_id": pid, "reason": W.NOT_CLAIMED})
            continue
        checks.append({
            "property_id": pid,
            "quick_cmd": "./check %s --tier quick" % pid,
            "thorough_cmd": "./check %s --tier thorough" % pid,
            "evidence_file": "evidence/%s.json" % pid,
            "replay_cmd_template": "./check %s --replay {path}" % pid,
            "engine": "vp-runtime-monitor",
            "level_claimed": {
                "category": getattr(W, "LEVEL", "exploration"),
                "text": getattr(W, "LEVEL_TEXT", "Runtime monitoring: the real dimarray code from /repo's working tree is executed on generated "
                                "hostile workloads while a reference-model oracle and always-on invariant monitors observe every call; "
                                "held means held on the executions counted in the evidence file, not proved."),
                "design_ref": "DESIGN.md section 5 (%s)" % pid,
            },
            "level_note": getattr(W, "LEVEL_NOTE", "Trusted base: NumPy as arithmetic/indexing reference, the hand-written reference model in vp/model.py, "
                                  "the generators' coverage of the quantifier (classes observed are listed in the evidence)."),
            "technique": getattr(W, "TECHNIQUE", "runtime monitoring: reference-model oracle over recorded API-boundary events + invariant hooks"),
        })
    man = {
        "version": 1,
        "setup_cmd": "sh ./setup.sh",
        "hooks": {
            "guard": "DIMARRAY_VERIF",
            "enable": "no source hooks are needed: monitors are wrappers installed by the harness at import time (vp/monitors.py) "
                      "and sys.monitoring counters; checks import dimarray from /repo's working tree (or $VERIF_REPO)",
            "baseline_off_cmd": "cd /repo && /venv/bin/python -m pytest -ra -q -p no:cacheprovider --timeout=900 --continue-on-collection-errors",
            "source_commits": [],
            "add_only": True,
        },
        "engines": [{"name": "vp-runtime-monitor", "path": "vp/", "serves_properties": [c["property_id"] for c in checks],
                     "kind_free_text": "runtime monitoring harness: seeded workload generators, independent reference model, "
                                       "hooked invariant monitors (DimArray.__init__, Dataset.__setitem__), operand snapshots, "
                                       "sys.monitoring anchor counters, sharded subprocess runner"}],
        "checks": checks,
        "not_applicable": na,
        "notes": "All checks: exit 0 held on what was observed / 1 VIOLATION with replay file / 2 INCONCLUSIVE. "
                 "VERIF_SEED and VERIF_TIER are honoured. VERIF_REPO overrides the tree under test (mutant self-test only).",
    }
    with open(os.path.join(VERIF, "MANIFEST.json"), "w") as f:
        json.dump(man, f, indent=1)
    print("MANIFEST.json: %d checks, %d not_applicable" % (len(checks), len(na)))


if __name__ == "__main__":
    main()
