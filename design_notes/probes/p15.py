import numpy as np, warnings, itertools, sys, random, traceback, operator
warnings.simplefilter('ignore')
from gen import *
from dimarray import Dataset
rng = random.Random(int(sys.argv[1]) if len(sys.argv)>1 else 7)
fails = {}
def note(k, msg):
    fails.setdefault(k, []).append(msg)
def inv(ds, tag, hist):
    ok=True
    used=set()
    for k in ds.keys():
        v = dict.__getitem__(ds,k)
        for ax in v.axes:
            used.add(ax.name)
            if ax.name not in ds.dims: note((tag,'var dim not in ds.dims'), hist[-3:]); ok=False; continue
            if ax is not ds.axes[ax.name]: note((tag,'axis not shared'), hist[-3:]); ok=False
        if tuple(ax.size for ax in v.axes)!=v.values.shape: note((tag,'illformed'),hist[-3:]); ok=False
    if len(set(ds.dims))!=len(ds.dims): note((tag,'dup dims'),hist[-3:]); ok=False
    return ok, used
def state(ds):
    return (tuple(ds.dims), tuple(tuple(l.tolist()) for l in ds.labels), tuple((k, dict.__getitem__(ds,k).dims, dict.__getitem__(ds,k).values.tobytes()) for k in ds.keys()))
for it in range(1500):
    ds = Dataset()
    labels = {}  # canonical labels per dim in this history
    hist=[]
    direct=set()
    for step in range(rng.randint(1,12)):
        op = rng.choice(['set','set','set','bad','del','rename_axis','relabel','dims','set_axis','rename_keys','rename_axes','axes_setitem'])
        try:
            if op in ('set','bad'):
                nd = rng.randint(0,3); dims = rng.sample(DIMS, nd)
                axes=[]
                for d in dims:
                    if d in ds.dims: lab = ds.axes[d].values.copy()
                    else: lab = mk_labels(rng, rng.randint(1,3))
                    axes.append(Axis(lab,d))
                if op=='bad':
                    cand=[i for i,d in enumerate(dims) if d in ds.dims and ds.axes[d].size>0]
                    if not cand: continue
                    i=rng.choice(cand); lab=axes[i].values.copy()
                    if lab.dtype.kind in 'if': lab[rng.randrange(len(lab))] += 100
                    else: lab[rng.randrange(len(lab))] = 'zzz'
                    axes[i]=Axis(lab,dims[i])
                shape=[ax.size for ax in axes]
                arr = DimArray(np.array(rng.sample(range(1000), int(np.prod(shape))),dtype=float).reshape(shape), axes=axes)
                key = rng.choice(list('abcd'))
                hist.append((op,key,dims))
                before = state(ds)
                if op=='bad':
                    try:
                        ds[key]=arr
                        note(('bad accepted',),hist[-2:])
                    except ValueError:
                        if state(ds)!=before: note(('rejected assignment changed ds', 'newdims' if any(d not in before[0] for d in dims) else 'nonew'), (before[0], ds.dims, hist[-1]))
                        # repair for continuing
                        break
                else:
                    ds[key]=arr
                    got = ds[key]
                    if got.dims!=arr.dims or not np.array_equal(got.values,arr.values): note(('set value',),0)
            elif op=='del':
                if not ds.keys(): continue
                k=rng.choice(list(ds.keys())); hist.append((op,k)); del ds[k]
            elif op=='rename_axis':
                if not ds.dims: continue
                d=rng.choice(ds.dims); new=d+'r'; hist.append((op,d,new)); ds.axes[d].name=new
            elif op=='relabel':
                if not ds.dims: continue
                d=rng.choice(ds.dims); 
                if ds.axes[d].size==0: continue
                hist.append((op,d)); ds.axes[d][0] = 12345
            elif op=='dims':
                new=tuple(d+'q' for d in ds.dims); hist.append((op,new)); ds.dims=new
            elif op=='set_axis':
                if not ds.dims: continue
                d=rng.choice(ds.dims); n=ds.axes[d].size; hist.append((op,d)); ds.set_axis(np.arange(n)+50, axis=d)
            elif op=='rename_keys':
                if not ds.keys(): continue
                k=rng.choice(list(ds.keys())); hist.append((op,k)); ds.rename_keys({k:k+'k'})
            elif op=='rename_axes':
                if not ds.dims: continue
                d=rng.choice(ds.dims); hist.append((op,d)); ds.rename_axes({d:d+'x'})
            elif op=='axes_setitem':
                if not ds.dims: continue
                d=rng.choice(ds.dims); n=ds.axes[d].size; hist.append((op,d)); ds.axes[d] = Axis(np.arange(n)+70., d)
        except Exception as ex:
            note(('exc', op, type(ex).__name__, str(ex)[:60]), hist[-3:]); break
        ok, used = inv(ds, op, hist)
        # dims exactly those used
        extra = [d for d in ds.dims if d not in used]
        if extra: note((op,'extra dims'), (hist[-3:], ds.dims, used))
        if not ok: break
for k,v in sorted(fails.items(), key=str):
    print(k, len(v), repr(v[-1])[:400].replace("\n"," "))
print("n fails", len(fails))
