import numpy as np, warnings, itertools, sys, random
warnings.simplefilter('ignore')
from gen import *
a = DimArray(np.arange(6.).reshape(2,3), axes=[Axis(np.array(['a','b'],dtype=object),'x'), Axis(np.array([30,10,20]),'y')])
a.attrs['units']='K'; a.axes['y'].attrs['long']='why'; a.axes['x'].attrs['xm']=1
a.values[0,0]=np.nan
ops = {
 'getitem scalar': lambda: a['a'], 'getitem list': lambda: a[:, [10,20]], 'getitem slice': lambda: a[:, 10:20], 'ix': lambda: a.ix[:, :2], 'mask': lambda: a[:, np.array([True,False,True])],
 'boolnd': lambda: a[a.values>2], 'take_axis': lambda: a.take_axis([10,30], axis='y'), 'compress_axis': lambda: a.compress_axis(np.array([True,False,True]), axis='y'),
 'mean': lambda: a.mean(axis='y'), 'sum tuple': lambda: a.newaxis('k').sum(axis=('x','y')), 'median': lambda: a.median(axis=0), 'cumsum': lambda: a.cumsum(axis='y'), 'diff': lambda: a.diff(axis='y'),
 'argmin': lambda: a.argmin(axis='y'),
 'transpose': lambda: a.T, 'swapaxes': lambda: a.swapaxes(0,1), 'newaxis': lambda: a.newaxis('k'), 'squeeze': lambda: a.newaxis('k').squeeze(), 'repeat': lambda: a.newaxis('k').repeat(2,axis='k'),
 'flatten': lambda: a.flatten(), 'unflatten': lambda: a.flatten().unflatten(), 'reshape': lambda: a.reshape('y','x'), 'reshape grp': lambda: a.reshape('x,y'), 'broadcast': lambda: a.broadcast([Axis([1,2],'k')]+list(a.axes)),
 'reindex_axis': lambda: a.reindex_axis([10,20,50], axis='y'), 'reindex_like': lambda: a.reindex_like(a[:, [10,20]]), 'sort_axis': lambda: a.sort_axis(axis='y'), 'interp': lambda: a.interp_axis([10,15], axis='y'),
 'dropna': lambda: a.dropna(axis='y'), 'fillna': lambda: a.fillna(0), 'setna': lambda: a.setna(3.),
 'add': lambda: a+a, 'add scalar': lambda: a+1, 'neg': lambda: -a, 'eq': lambda: a==a, 'lt': lambda: a<2, 'stack': lambda: da.stack([a,a],axis='s'), 'concat': lambda: da.concatenate([a,a],axis='y'),
 'apply': lambda: a.apply(np.sqrt), 'copy': lambda: a.copy(), 'put notinplace': lambda: a.put(('a',10), 5, inplace=False),
 'percentile': lambda: da.percentile(a, 50, axis='y'),
}
for k,f in ops.items():
    try:
        r=f()
        print(f"{k:16s} attrs={getattr(r,'attrs',None)}  axes attrs={[ (ax.name, ax.attrs) for ax in r.axes] if hasattr(r,'axes') else None}")
    except Exception as e:
        print(f"{k:16s} EXC {type(e).__name__} {str(e)[:80]}")
