import numpy as np, warnings, itertools, sys, random, traceback, operator
warnings.simplefilter('ignore')
from gen import *
from dimarray import Dataset
rng = random.Random(int(sys.argv[1]) if len(sys.argv)>1 else 7)
fails = {}
def note(k, msg):
    fails.setdefault(k, []).append(msg)
def eqarr(r, e):
    if not hasattr(r,'dims') or not hasattr(e,'dims'):
        rv=getattr(r,'values',r); ev=getattr(e,'values',e)
        return np.shape(rv)==np.shape(ev) and bool(np.all((np.asarray(rv)==np.asarray(ev))|((np.asarray(rv)!=np.asarray(rv))&(np.asarray(ev)!=np.asarray(ev)))))
    if r.dims!=e.dims: return False
    if any(x.tolist()!=y.tolist() for x,y in zip(r.labels,e.labels)): return False
    rv=np.asarray(r.values,dtype=float); ev=np.asarray(e.values,dtype=float)
    return rv.shape==ev.shape and bool(np.all(np.isclose(rv,ev,equal_nan=True)))
def shared(ds, tag):
    for k in ds.keys():
        v = dict.__getitem__(ds,k)
        for ax in v.axes:
            if ax.name not in ds.dims or ax is not ds.axes[ax.name]: note((tag,'result axes not shared'),0); return
def mkds(rng, numeric=False):
    dims = rng.sample(DIMS, rng.randint(1,3))
    axes = {d: Axis(mk_labels(rng, rng.randint(1,4), kind=(rng.choice(['i','f']) if numeric else None)), d) for d in dims}
    ds = Dataset()
    for k in list('abcd')[:rng.randint(1,4)]:
        vd = rng.sample(dims, rng.randint(0,len(dims)))
        shape=[axes[d].size for d in vd]
        ds[k] = DimArray(np.array(rng.sample(range(1000), int(np.prod(shape))),dtype=rng.choice([float,int])).reshape(shape), axes=[axes[d].copy() for d in vd])
        ds[k].attrs['vm']=k
    ds.attrs['dm']='D'
    return ds
for it in range(3000):
    ds = mkds(rng, numeric=True)
    if not ds.dims: continue
    d = rng.choice(ds.dims); ax = ds.axes[d]; n=ax.size
    what = rng.choice(['take','ix','sel','isel','loc','reduce','take_axis','sort_axis','reindex','interp','arith','arith_scalar','neg'])
    try:
        if what in('take','sel','loc'):
            lab = ax.values[rng.randrange(n)] if rng.random()<.5 else [ax.values[rng.randrange(n)] for _ in range(2)]
            r = ds.take(indices={d:lab}) if what=='take' else ds.sel(**{d:lab}) if what=='sel' else ds.loc[{d:lab}]
            exp = {k: (ds[k].take({d:lab}) if d in ds[k].dims else ds[k]) for k in ds.keys()}
        elif what in ('ix','isel'):
            p = rng.randrange(n) if rng.random()<.5 else [rng.randrange(n) for _ in range(2)]
            r = ds.isel(**{d:p}) if what=='isel' else ds.ix[{d:p}]
            exp = {k: (ds[k].take({d:p}, indexing='position') if d in ds[k].dims else ds[k]) for k in ds.keys()}
        elif what=='reduce':
            f = rng.choice(['mean','std','var','median','sum'])
            r = getattr(ds,f)(axis=d)
            exp = {k: (getattr(ds[k],f)(axis=d) if d in ds[k].dims else ds[k]) for k in ds.keys()}
        elif what=='take_axis':
            labs=[ax.values[rng.randrange(n)] for _ in range(3)]
            r = ds.take_axis(labs, axis=d)
            exp = {k: (ds[k].take_axis(labs, axis=d) if d in ds[k].dims else ds[k]) for k in ds.keys()}
        elif what=='sort_axis':
            r = ds.sort_axis(axis=d)
            exp = {k: (ds[k].sort_axis(axis=d) if d in ds[k].dims else ds[k]) for k in ds.keys()}
        elif what=='reindex':
            new = ax.values.tolist()[::-1] + ([99] if rng.random()<.6 else [])
            axisarg = rng.choice([d, ds.dims.index(d)])
            r = ds.reindex_axis(np.array(new, dtype=ax.values.dtype), axis=axisarg)
            exp = {k: (ds[k].reindex_axis(np.array(new, dtype=ax.values.dtype), axis=d) if d in ds[k].dims else ds[k]) for k in ds.keys()}
            what = what + ('-missing' if 99 in new else '') + ('-int' if isinstance(axisarg,int) else '')
        elif what=='interp':
            lo,hi = float(ax.values.min()), float(ax.values.max())
            new = np.array([lo-1, lo, (lo+hi)/2, hi, hi+1])
            r = ds.interp_axis(new, axis=d)
            exp = {k: (ds[k].interp_axis(new, axis=d) if d in ds[k].dims else ds[k]) for k in ds.keys()}
        elif what=='arith':
            r = ds + ds
            exp = {k: ds[k]+ds[k] for k in ds.keys()}
        elif what=='arith_scalar':
            r = ds * 2
            exp = {k: ds[k]*2 for k in ds.keys()}
        else:
            r = -ds
            exp = {k: -ds[k] for k in ds.keys()}
    except Exception as ex:
        lacking = any(d not in ds[k].dims for k in ds.keys())
        note(('exc', what, 'some-var-lacks-dim' if lacking else 'all-have', type(ex).__name__, str(ex)[:70]), 0); continue
    if set(r.keys())!=set(exp.keys()): note((what,'keys'),0); continue
    for k in exp:
        if not eqarr(r[k], exp[k]): note((what,'value', 'lacks' if d not in ds[k].dims else 'has'), (ds[k], r[k], exp[k])); break
    shared(r, what)
    if what in ('take','ix','sel','isel','loc','take_axis','sort_axis','interp') or what.startswith('reindex'):
        if r.attrs!={'dm':'D'}: note((what,'ds attrs'), r.attrs)
for k,v in sorted(fails.items(), key=str):
    print(k, len(v), repr(v[-1])[:300].replace("\n"," "))
print("n fails", len(fails))
