import numpy as np, warnings, itertools, sys, random
warnings.simplefilter('ignore')
from gen import *
from dimarray import Dataset
def t(label, f):
    try:
        r = f()
        print("OK  ", label, "->", repr(r).replace("\n"," | ")[:300])
    except Exception as e:
        print("EXC ", label, "->", type(e).__name__, str(e)[:150])
a = DimArray(np.arange(6.).reshape(2,3), axes=[Axis(np.array(['a','b'],dtype=object),'x'), Axis(np.array([30,10,20]),'y')])
ds = Dataset(a=a); ax = Axis(np.array([1,2,3]),'t')
for name,obj in [('DimArray',a),('Dataset',ds),('Axis',ax)]:
    print("=====",name)
    obj.units='K'; t("set public", lambda: (obj.attrs, obj.units))
    t("hasattr missing", lambda: hasattr(obj,'nope'))
    obj._priv = 3; t("private not in attrs", lambda: ('_priv' in obj.attrs, obj._priv))
    obj.attrs['_hidden']=1; t("attrs _hidden reachable?", lambda: hasattr(obj,'_hidden'))
    def d():
        del obj._hidden
    t("del _hidden", d); t("still in attrs", lambda: '_hidden' in obj.attrs)
    obj.attrs['values']='bad'; t("attrs['values'] vs member", lambda: type(obj.values).__name__ if name!='Dataset' else 'method')
    def d2():
        del obj.values
    t("del values", d2); t("attrs values still", lambda: obj.attrs.get('values'))
    del obj.attrs['values']; del obj.attrs['_hidden']
    def d3():
        del obj.units
    t("del units", d3); t("units gone", lambda: ('units' in obj.attrs, hasattr(obj,'units')))
    if name!='Axis':
        t("dim name get", lambda: obj.y)
        def s():
            obj.y = [1,2,3]
        t("dim name set", s); t("labels after", lambda: (obj.axes['y'].values, 'y' in obj.attrs))
        if name=='Dataset': t("var shares", lambda: obj['a'].axes['y'].values)
    def s2():
        obj.shape = 5
    t("set member 'shape'", s2); t("shape in attrs?", lambda: 'shape' in obj.attrs)
    def s3(): obj.dims = 5
    t("attrs setter", lambda: setattr(obj,'attrs',{'q':1}) or obj.attrs)
    def d4():
        del obj.attrs
    t("attrs deleter", lambda: d4() or obj.attrs)
