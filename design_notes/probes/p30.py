import numpy as np, warnings, itertools, sys, random
warnings.simplefilter('ignore')
from gen import *
from collections import OrderedDict
def t(label, f):
    try:
        r = f(); print("OK  ", label, "->", (r.dims, [l.tolist() for l in r.labels], r.values.tolist(), str(r.dtype)))
    except Exception as e: print("EXC ", label, "->", type(e).__name__, str(e)[:150])
v = np.arange(6.).reshape(2,3); L=[['a','b'],[30,10,20]]; D=['x','y']
t("axes lists+dims", lambda: DimArray(v, axes=L, dims=D))
t("axes ndarrays+dims", lambda: DimArray(v, axes=[np.array(L[0]), np.array(L[1])], dims=D))
t("labels+dims", lambda: DimArray(v, labels=L, dims=D))
t("pairs", lambda: DimArray(v, axes=[('x',L[0]),('y',L[1])]))
t("pairs as tuple", lambda: DimArray(v, axes=(('x',L[0]),('y',L[1]))))
t("Axis objs", lambda: DimArray(v, axes=[Axis(L[0],'x'),Axis(L[1],'y')]))
t("Axes obj", lambda: DimArray(v, axes=da.Axes([Axis(L[0],'x'),Axis(L[1],'y')])))
t("dict+dims", lambda: DimArray(v, axes={'x':L[0],'y':L[1]}, dims=D))
t("dict+dims rev", lambda: DimArray(v, axes={'y':L[1],'x':L[0]}, dims=D))
t("dict nodims (shape)", lambda: DimArray(v, axes={'x':L[0],'y':L[1]}))
t("nested dict", lambda: DimArray({'a':{30:0.,10:1.,20:2.},'b':{30:3.,10:4.,20:5.}}, dims=D))
t("nested list of dict", lambda: DimArray([{30:0.,10:1.,20:2.},{30:3.,10:4.,20:5.}], dims=D, labels=[L[0]]))
t("values nested list", lambda: DimArray(v.tolist(), axes=L, dims=D))
t("zeros axes+dims", lambda: da.zeros(axes=L, dims=D))
t("zeros pairs", lambda: da.zeros(axes=[('x',L[0]),('y',L[1])]))
t("ones Axis", lambda: da.ones(axes=[Axis(L[0],'x'),Axis(L[1],'y')]))
t("empty shape dims", lambda: da.empty(dims=D, shape=(2,3)))
t("zeros_like", lambda: da.zeros_like(DimArray(v, axes=L, dims=D)))
t("no values, axes", lambda: DimArray(axes=[('x',L[0]),('y',L[1])]))
t("dims only", lambda: DimArray(v, dims=D))
t("axes only", lambda: DimArray(v, axes=L))
t("1-D tuple", lambda: DimArray(np.arange(3.), ('y', L[1])))
t("1-D axes=labels dims=str", lambda: DimArray(np.arange(3.), axes=L[1], dims='y'))
t("from DimArray", lambda: DimArray(DimArray(v, axes=L, dims=D)))
t("dup names", lambda: DimArray(v, axes=L, dims=['x','x']))
t("shape mismatch", lambda: DimArray(v, axes=[L[0],[1,2]], dims=D))
t("shape mismatch T", lambda: DimArray(v.T, axes=L, dims=D))
t("nonstr name", lambda: DimArray(v, axes=L, dims=[1,2]))
t("2-D axis", lambda: DimArray(np.arange(2.), axes=[[[1,2],[3,4]]], dims=['x']))
t("array()", lambda: da.array(v, axes=L, dims=D))
t("0-d", lambda: DimArray(np.float64(3)))
t("0-d py", lambda: DimArray(3.0))
t("axes setter bad size", lambda: setattr(DimArray(v, axes=L, dims=D), 'axes', da.Axes([Axis([1],'x'),Axis(L[1],'y')])))
t("axes setter list bad size", lambda: setattr(DimArray(v, axes=L, dims=D), 'axes', [[1,2,3],[1,2,3]]))
a = DimArray(v, axes=L, dims=D)
def f():
    a.axes['x'] = Axis([1,2,3],'x'); return a
t("Axes setitem wrong size", f)
def g():
    a.axes['y'].values = [1,2]; return a
t("Axis.values wrong size", g)
def h():
    a.axes['y'].name = 'x'; return a
t("rename to duplicate", h)
print(a.dims)
