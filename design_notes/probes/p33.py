import numpy as np, warnings, operator, random
warnings.simplefilter('ignore')
from gen import *
rng=random.Random(1); bad=0; n=0
ops=[operator.add, operator.sub, operator.mul, operator.truediv, operator.floordiv, operator.pow]
for it in range(3000):
    a = mk_array(rng, ndim=rng.randint(0,3), dtype=rng.choice([float,int]))
    a.values[...] = (a.values % 7) + 1
    s = rng.choice([2, 3.5, np.float64(2.5), np.int64(3)])
    op = rng.choice(ops)
    for x,y in ((a,s),(s,a)):
        n+=1
        try:
            r = op(x,y); e = op(x.values if x is a else x, y.values if y is a else y)
            if not (np.array_equal(r.values,e) and r.values.dtype==e.dtype and r.dims==a.dims and all(p.tolist()==q.tolist() for p,q in zip(r.labels,a.labels))): bad+=1; print("MISMATCH", op.__name__, type(x).__name__, type(y).__name__, r.values.dtype, e.dtype)
        except Exception as ex:
            bad+=1; print("EXC", op.__name__, type(x).__name__, type(y).__name__, type(ex).__name__, str(ex)[:80])
        if bad>5: break
    if bad>5: break
    # ndarray right operand
    nd = np.ones(a.shape)*2
    r = op(a, nd); e = op(a.values, nd)
    if not np.array_equal(r.values,e): bad+=1; print("nd mismatch")
print("n",n,"bad",bad)
