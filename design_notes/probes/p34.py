import numpy as np, warnings
warnings.simplefilter('always')
import dimarray as da
from dimarray import DimArray, Axis
a = DimArray(np.array([3.,4.]), axes=[Axis(np.array(['a','b'],dtype=object),'xx')])
for label, f in [("a.values + a", lambda: a.values + a), ("np.float64(2)-a", lambda: np.float64(2)-a), ("np.int64(2)*a", lambda: np.int64(2)*a), ("np.sqrt(a)", lambda: np.sqrt(a)), ("np.add(a,1)", lambda: np.add(a,1)), ("a.mean()-a", lambda: a.mean()-a), ("a - a.mean()", lambda: a-a.mean())]:
    try:
        r = f(); print(label, "->", type(r).__name__, repr(r).replace("\n"," | ")[:150])
    except Exception as e: print(label, "EXC", type(e).__name__, str(e)[:150])
