import numpy as np, itertools, random
import dimarray as da
from dimarray import DimArray, Axis
def mk_labels(rng, n, kind=None, order=None):
    kind = kind or rng.choice(['i','f','s'])
    order = order or rng.choice(['inc','dec','shuf'])
    if kind == 'i':
        pool = rng.sample(range(-5, 30), n)
        lab = sorted(pool)
    elif kind == 'f':
        pool = rng.sample(range(-10, 40), n)
        lab = sorted(x/2.0 for x in pool)
    else:
        pool = rng.sample(list('abcdefghijklm'), n)
        lab = sorted(pool)
    if order == 'dec': lab = lab[::-1]
    elif order == 'shuf': rng.shuffle(lab)
    if kind == 's':
        arr = np.empty(n, dtype=object); arr[:] = lab
        return arr
    return np.array(lab, dtype=int if kind=='i' else float)
DIMS = ['x','y','z','w']
def mk_array(rng, ndim=None, dims=None, sizes=None, dtype=float, nan=False, kinds=None):
    if ndim is None and dims is None: ndim = rng.randint(0,4)
    dims = rng.sample(DIMS, ndim) if dims is None else dims
    sizes = [rng.randint(1,4) for _ in dims] if sizes is None else sizes
    axes = [Axis(mk_labels(rng, n, kind=(kinds[i] if kinds else None)), d) for i,(d,n) in enumerate(zip(dims,sizes))]
    size = int(np.prod(sizes)) if sizes else 1
    vals = np.array(rng.sample(range(1000), size), dtype=dtype).reshape(sizes)
    if nan and size and vals.dtype.kind=="f":
        flat = vals.reshape(-1)
        for k in range(size):
            if rng.random() < 0.3: flat[k] = np.nan
    return DimArray(vals, axes=axes)
