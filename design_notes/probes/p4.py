import numpy as np, warnings, itertools, sys, random, traceback
warnings.simplefilter('ignore')
from gen import *
rng = random.Random(int(sys.argv[1]) if len(sys.argv)>1 else 0)
fails = {}
def note(k, msg):
    fails.setdefault(k, []).append(msg)
# C02 exhaustive slices on monotonic numeric axes
cnt=0
for n in range(0,6):
  for kind in ('i','f'):
    for direction in (1,-1):
        base = [2*k+1 for k in range(n)]  # 1,3,5,..
        lab = base[::direction]
        arr = np.array(lab, dtype=int if kind=='i' else float)
        a = DimArray(np.arange(n)*10., axes=[Axis(arr,'t')])
        bounds = [None] + [x/2 for x in range(-2, 2*(2*n+1)+3)]  # 0.5 steps from -1 .. 
        for lo in bounds:
          for hi in bounds:
            for step in (None,1,2,3,-1,-2):
                cnt+=1
                # oracle
                l, h = lo, hi
                pos = list(range(n))
                if step is None or step>0:
                    # selects positions whose label between lo and hi, in axis order
                    # for decreasing axis a[lo:hi] means start at label lo going to hi in axis order: bounds (lo,hi) with lo>=hi
                    sel = [p for p in pos if (l is None or (arr[p] >= l if direction==1 else arr[p] <= l)) and (h is None or (arr[p] <= h if direction==1 else arr[p] >= h))]
                    sel = sel[::(step or 1)]
                else:
                    # negative step: reverse order: start at lo going backwards to hi
                    sel = [p for p in pos[::-1] if (l is None or (arr[p] <= l if direction==1 else arr[p] >= l)) and (h is None or (arr[p] >= h if direction==1 else arr[p] <= h))]
                    sel = sel[::-step]
                try:
                    r = a[slice(lo,hi,step)]
                except Exception as ex:
                    note(('exc',type(ex).__name__, str(ex)[:60]), (lab, lo,hi,step)); continue
                got = list(r.values/10)
                if got != sel:
                    note(('mismatch', kind, direction, 'step', step, 'lo None' if lo is None else '', 'hi None' if hi is None else ''), (lab, lo, hi, step, got, sel))
for k,v in sorted(fails.items(), key=str):
    print(k, len(v), v[:2])
print("done", cnt)
