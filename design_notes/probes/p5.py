import numpy as np, warnings, itertools, sys, random, traceback
warnings.simplefilter('ignore')
from gen import *
rng = random.Random(3)
fails = {}
def note(k, msg):
    fails.setdefault(k, []).append(msg)
cnt=0
for it in range(4000):
    n = rng.randint(1,5)
    kind = rng.choice(['s','i','f'])
    order = 'shuf' if kind!='s' else rng.choice(['inc','dec','shuf'])
    lab = mk_labels(rng, n, kind, order)
    if kind!='s':
        # ensure non monotonic
        d = np.diff(lab)
        if n<3 or np.all(d>0) or np.all(d<0): continue
    a = DimArray(np.arange(n)*10., axes=[Axis(lab,'t')])
    i = rng.choice([None]+list(range(n))); j = rng.choice([None]+list(range(n)))
    step = rng.choice([None,1,2,-1,-2])
    lo = None if i is None else lab[i]; hi = None if j is None else lab[j]
    # oracle: from first to second inclusive in position space
    if step is None or step>0:
        s = 0 if i is None else i; e = n-1 if j is None else j
        sel = list(range(s, e+1))[::(step or 1)]
    else:
        s = n-1 if i is None else i; e = 0 if j is None else j
        sel = list(range(s, e-1, -1))[::-step]
    cnt+=1
    try:
        r = a[slice(lo,hi,step)]
    except Exception as ex:
        note(('exc',type(ex).__name__, str(ex)[:60]), (lab, lo,hi,step)); continue
    got = [int(x) for x in r.values/10]
    if got != sel:
        note(('mismatch', kind, 'step', step, 'i None' if i is None else '', 'j None' if j is None else '', 'i>j' if (i is not None and j is not None and i>j) else ''), (list(lab), lo, hi, step, got, sel))
for k,v in sorted(fails.items(), key=str):
    print(k, len(v), v[-1])
print("done", cnt)
