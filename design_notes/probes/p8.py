import numpy as np, warnings, itertools, sys, random, traceback, operator
warnings.simplefilter('ignore')
from gen import *
rng = random.Random(int(sys.argv[1]) if len(sys.argv)>1 else 7)
fails = {}
def note(k, msg):
    fails.setdefault(k, []).append(msg)
def snap(a):
    return (a.values.tobytes(), str(a.dtype), a.dims, tuple(tuple(l.tolist()) for l in a.labels), tuple(str(l.dtype) for l in a.labels))
def direction(v):
    if len(v)<2: return 'any'
    d = np.diff(np.asarray(v, dtype=float)) if not isinstance(v[0], str) else None
    if d is None:
        inc = all(v[i]<v[i+1] for i in range(len(v)-1)); dec = all(v[i]>v[i+1] for i in range(len(v)-1))
    else:
        inc = np.all(d>0); dec=np.all(d<0)
    return 'inc' if inc else 'dec' if dec else 'none'
for it in range(2500):
    kinds = {d: rng.choice(['i','f','s','if']) for d in DIMS}
    def mk(rng):
        nd = rng.randint(0,3)
        dims = rng.sample(DIMS, nd)
        axes=[]
        for d in dims:
            k = kinds[d]
            if k=='if': k = rng.choice(['i','f'])
            pool = list(range(0,6)) if k=='i' else [float(x) for x in range(0,6)] if kinds[d]=='if' else [x/2 for x in range(6)] if k=='f' else list('abcdef')
            n = rng.randint(0,4)
            lab = rng.sample(pool, n)
            o = rng.choice(['inc','dec','shuf'])
            if o=='inc': lab.sort()
            elif o=='dec': lab.sort(reverse=True)
            if k=='s':
                arr=np.empty(n,dtype=object); arr[:]=lab
            else: arr=np.array(lab, dtype=int if k=='i' else float)
            axes.append(Axis(arr,d))
        shape=[ax.size for ax in axes]
        vals = np.array([rng.randint(1,9) for _ in range(int(np.prod(shape)))], dtype=rng.choice([float,int])).reshape(shape)
        return DimArray(vals, axes=axes)
    arrays = [mk(rng) for _ in range(rng.randint(1,4))]
    join = rng.choice(['outer','inner']); sort = rng.choice([False,True])
    alldims = []
    for a in arrays:
        for d in a.dims:
            if d not in alldims: alldims.append(d)
    axis = rng.choice([None]+alldims) if alldims else None
    snaps = [snap(a) for a in arrays]
    try:
        res = da.align(arrays, join=join, sort=sort, axis=axis)
    except Exception as ex:
        note(('exc', type(ex).__name__, str(ex)[:70]), ([ (a.dims,a.labels) for a in arrays], join, sort, axis)); continue
    for a,s in zip(arrays, snaps):
        if snap(a)!=s: note(('input-modified', 'sort' if sort else 'nosort'), (s, snap(a)))
    for d in ([axis] if axis else alldims):
        having = [i for i,a in enumerate(arrays) if d in a.dims]
        sets = [set(arrays[i].axes[d].values.tolist()) for i in having]
        exp = set.union(*sets) if join=='outer' else set.intersection(*sets)
        for i in having:
            if d not in res[i].dims: note(('dim lost',), d); continue
            got = res[i].axes[d].values.tolist()
            if len(got)!=len(set(got)) or set(got)!=exp: note(('labelset', join, kinds[d]), (d,[arrays[j].axes[d].values for j in having], got)); continue
            if got != res[having[0]].axes[d].values.tolist(): note(('not identical',), d)
            dirs = set(direction(arrays[j].axes[d].values.tolist()) for j in having) - {'any'}
            if sort:
                if direction(got) not in ('inc','any'): note(('notsorted', kinds[d]), got)
            elif len(dirs)==1 and dirs <= {'inc','dec'}:
                if direction(got) not in (list(dirs)[0],'any'): note(('direction', join, list(dirs)[0], kinds[d]), ([arrays[j].axes[d].values for j in having], got))
    # values
    for a,r in zip(arrays,res):
        if r.dims != a.dims: note(('dims changed',),(a.dims,r.dims)); continue
        for ix in np.ndindex(*r.shape):
            pos=[]
            for d,i in zip(r.dims,ix):
                l = r.axes[d].values[i]
                w=[k for k,v in enumerate(a.axes[d].values) if v==l]
                pos.append(w[0] if w else None)
            g = r.values[ix]
            if None in pos:
                if not np.isnan(g): note(('fill not nan',), (a,r)); break
            elif g != a.values[tuple(pos)]: note(('value moved', 'sort' if sort else 'nosort', join), (snap(a), snap(r), axis)); break
for k,v in sorted(fails.items(), key=str):
    print(k, len(v), repr(v[-1])[:500])
