import numpy as np, warnings, itertools, sys, random, traceback, operator
warnings.simplefilter('ignore')
from gen import *
from dimarray import MultiAxis
rng = random.Random(int(sys.argv[1]) if len(sys.argv)>1 else 7)
fails = {}
def note(k, msg):
    fails.setdefault(k, []).append(msg)
def same(x,y): return x==y or str(x)==str(y)
def mk(rng, nd=None):
    nd = rng.randint(1,4) if nd is None else nd
    dims = rng.sample(DIMS, nd)
    sizes = rng.sample([1,2,3,4,5], nd)
    a = mk_array(rng, dims=dims, sizes=sizes)
    a.attrs['u']='m'
    return a
def check_flat(a, r, sub, insert, tag):
    gname = ",".join(sub)
    rest = [d for d in a.dims if d not in sub]
    ed = rest[:insert]+[gname]+rest[insert:]
    if list(r.dims)!=ed: note((tag,'dims'),(a.dims,sub,insert,r.dims)); return
    g = r.axes[gname]
    if len(sub)>1:
        if not isinstance(g, MultiAxis): note((tag,'notmulti'),0); return
        if [ax.name for ax in g.axes]!=list(sub): note((tag,'members'),0); return
        for ax in g.axes:
            if ax.values.tolist()!=a.axes[ax.name].values.tolist(): note((tag,'member labels'),0); return
    combos = list(itertools.product(*[a.axes[d].values.tolist() for d in sub]))
    gv = g.values.tolist()
    if len(gv)!=len(combos): note((tag,'size'),0); return
    if len(sub)>1:
        for x,y in zip(gv,combos):
            if not all(same(p,q) for p,q in zip(x,y)): note((tag,'grouped labels'),(gv,combos)); return
    # value check
    for ix in np.ndindex(*r.shape):
        coord={}
        for d,i in zip(r.dims,ix):
            if d==gname:
                for s,l in zip(sub, combos[i]): coord[s]=l
            else: coord[d]=r.axes[d].values[i]
        pos = tuple(a.axes[d].values.tolist().index(coord[d]) for d in a.dims)
        if r.values[ix]!=a.values[pos]: note((tag,'values'),(a.dims,sub,insert)); return
    if r.attrs!={'u':'m'}: note((tag,'attrs'),r.attrs)
for it in range(4000):
    a = mk(rng); nd=a.ndim
    what = rng.choice(['flatten','flatten','reshape','tuplereduce','flatten_all'])
    try:
        if what=='flatten':
            sub = rng.sample(list(a.dims), rng.randint(1,nd))
            form = rng.choice(['tuple','list','set','var'])
            ins = rng.choice([None]+list(range(0, nd-len(sub)+1)))
            kw = {} if ins is None else {'insert':ins}
            if form=='set':
                arg=set(sub); sub=[d for d in a.dims if d in sub]
            else: arg = tuple(sub) if form=='tuple' else list(sub)
            r = a.flatten(arg, **kw) if form!='var' else a.flatten(*sub, **kw)
            einsert = ins if ins is not None else None
            if einsert is None:
                # default: position of first listed dim among ... a.dims.index(sub[0]) but clipped?
                einsert = a.dims.index(sub[0])
                rest=[d for d in a.dims if d not in sub]
                # compute expected as number of rest dims before? keep code's definition
            check_flat(a, r, sub, einsert, 'flatten' if ins is not None else 'flatten-definsert')
            u = r.unflatten()
            if set(u.dims)!=set(a.dims): note(('unflatten','dims'),(a.dims,u.dims))
            else:
                ut = u.transpose(a.dims)
                if not np.array_equal(ut.values,a.values) or any(x.tolist()!=y.tolist() for x,y in zip(ut.labels,a.labels)): note(('unflatten','roundtrip'),0)
                if u.attrs!={'u':'m'}: note(('unflatten','attrs'),0)
        elif what=='flatten_all':
            r=a.flatten()
            check_flat(a,r,list(a.dims),0,'flatten_all')
        elif what=='tuplereduce':
            sub = rng.sample(list(a.dims), rng.randint(1,nd))
            r = a.sum(axis=tuple(sub)); e = a.flatten(tuple(sub), insert=0).sum(axis=0)
            rv = getattr(r,'values',r); ev=getattr(e,'values',e)
            if not np.allclose(rv,ev): note(('tuplereduce',),0)
            e2 = a.values.sum(axis=tuple(a.dims.index(d) for d in sub))
            if not np.allclose(rv,e2): note(('tuplereduce np',),0)
        else:
            # reshape: random regroup of a random permutation, maybe add new singleton, drop singleton
            dims = list(a.dims); rng.shuffle(dims)
            drop = [d for d in dims if a.axes[d].size==1 and rng.random()<0.5]
            dims = [d for d in dims if d not in drop]
            if rng.random()<0.4: dims.insert(rng.randint(0,len(dims)), 'new')
            # group contiguous
            tgt=[]; i=0
            while i<len(dims):
                k = rng.randint(1,2)
                grp = dims[i:i+k]
                tgt.append(",".join(grp)); i+=k
            r = a.reshape(tgt) if rng.random()<.5 else a.reshape(*tgt)
            if list(r.dims)!=tgt: note(('reshape','dims'),(a.dims,tgt,r.dims)); continue
            u = r.unflatten()
            # element check
            for ix in np.ndindex(*u.shape):
                coord={d:u.axes[d].values[i] for d,i in zip(u.dims,ix)}
                pos=[]
                for d in a.dims:
                    if d in coord: pos.append(a.axes[d].values.tolist().index(coord[d]))
                    else: pos.append(0)
                if u.values[ix]!=a.values[tuple(pos)]: note(('reshape','values'),(a.dims,tgt)); break
            if r.attrs!={'u':'m'}: note(('reshape','attrs'),r.attrs)
            if a.attrs!={'u':'m'}: note(('reshape','input attrs'),0)
    except Exception as ex:
        note(('exc', what, type(ex).__name__, str(ex)[:80]), (a.dims, a.shape))
for k,v in sorted(fails.items(), key=str):
    print(k, len(v), repr(v[-1])[:300].replace("\n"," "))
print("n fails", len(fails))
