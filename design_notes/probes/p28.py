import sys; sys.path.insert(0,'/tmp/probe/fakenc')
import numpy as np, warnings, os, random, shutil
warnings.simplefilter('ignore')
from gen import *
from dimarray import Dataset
rng = random.Random(int(sys.argv[1]) if len(sys.argv)>1 else 1)
fails={}
def note(k,m): fails.setdefault(k,[]).append(m)
def eqa(r,e):
    if not hasattr(r,'dims') or not hasattr(e,'dims'):
        rv=np.asarray(getattr(r,'values',r)); ev=np.asarray(getattr(e,'values',e))
        if rv.shape!=ev.shape: return False
        return all((x==y) or (x!=x and y!=y) for x,y in zip(rv.ravel().tolist(), ev.ravel().tolist()))
    if r.dims!=e.dims: return False
    if any(x.tolist()!=y.tolist() for x,y in zip(r.labels,e.labels)): return False
    if r.values.shape!=e.values.shape: return False
    return all((x==y) or (x!=x and y!=y) for x,y in zip(r.values.ravel().tolist(), e.values.ravel().tolist()))
d='/tmp/probe/nc/rt'; shutil.rmtree(d, ignore_errors=True); os.makedirs(d)
for it in range(400):
    dims = rng.sample(DIMS, rng.randint(1,3))
    axes = {dd: Axis(mk_labels(rng, rng.randint(1,4)), dd) for dd in dims}
    for ax in axes.values(): ax.attrs['axm']='A'+ax.name
    ds = Dataset()
    for k in list('abcd')[:rng.randint(1,4)]:
        vd = rng.sample(dims, rng.randint(0,len(dims)))
        shape=[axes[x].size for x in vd]
        kind = rng.choice(['f','i','s','fn'])
        n=int(np.prod(shape))
        if kind=='s':
            v=np.empty(n,dtype=object); v[:]=[rng.choice(['p','qq','rrr']) for _ in range(n)]; v=v.reshape(shape)
        else:
            v=np.array(rng.sample(range(1000),n), dtype=int if kind=='i' else float).reshape(shape)
            if kind=='fn' and n: v.reshape(-1)[0]=np.nan
        ds[k]=DimArray(v, axes=[axes[x].copy() for x in vd])
        ds[k].attrs.update({'units':'K','n':3,'x':2.5,'l':[1,2,3]})
    ds.attrs['title']='T'; ds.attrs['num']=7
    fn=f'{d}/f{it}.nc'
    try:
        ds.write_nc(fn)
        r = da.read_nc(fn)
    except Exception as ex:
        note(('exc rt', type(ex).__name__, str(ex)[:80]), 0); continue
    if list(r.keys())!=list(ds.keys()): note(('keys',),(list(ds.keys()),list(r.keys())))
    if set(r.dims)!=set(ds.dims): note(('dims set',),(ds.dims,r.dims))
    elif r.dims!=ds.dims: note(('dims order',),(ds.dims,r.dims))
    for k in ds.keys():
        if k not in r.keys(): continue
        if not eqa(r[k], ds[k]): note(('var', str(ds[k].dtype), ds[k].ndim),(ds[k],r[k]))
        if r[k].dtype.kind!=ds[k].dtype.kind: note(('dtype kind',str(ds[k].dtype), ds[k].ndim),(r[k].dtype,))
        ra=dict(r[k].attrs); 
        ea={'units':'K','n':3,'x':2.5,'l':[1,2,3]}
        if not (set(ra)==set(ea) and ra['units']=='K' and ra['n']==3 and ra['x']==2.5 and list(ra['l'])==[1,2,3]): note(('var attrs',),(ra,))
    for dd in ds.dims:
        if dd in r.dims:
            if r.axes[dd].attrs!={'axm':'A'+dd}: note(('axis attrs',),(r.axes[dd].attrs,))
            if r.axes[dd].values.dtype.kind!=ds.axes[dd].values.dtype.kind: note(('label kind',),(ds.axes[dd].values.dtype, r.axes[dd].values.dtype))
    if dict(r.attrs)!={'title':'T','num':7}: note(('ds attrs',), dict(r.attrs))
    # on-disk indexing equivalence
    f = da.open_nc(fn)
    try:
        for k in ds.keys():
            mem = r[k]
            for trial in range(6):
                idx=[]
                for ax in mem.axes:
                    n=ax.size; kind=rng.choice(['scalar','list','mask','full','slice'])
                    if kind=='scalar': idx.append(ax.values[rng.randrange(n)])
                    elif kind=='list': idx.append([ax.values[p] for p in sorted(rng.sample(range(n), rng.randint(1,n)))])
                    elif kind=='mask': idx.append(np.array([rng.random()<.6 for _ in range(n)]))
                    elif kind=='slice':
                        i=rng.randrange(n); idx.append(slice(ax.values[i], None) if False else slice(None))
                    else: idx.append(slice(None))
                idx=tuple(idx)
                try: e = mem[idx]; eexc=None
                except Exception as ex: e=None; eexc=type(ex).__name__
                try: g = f[k][idx]; gexc=None
                except Exception as ex: g=None; gexc=type(ex).__name__+':'+str(ex)[:60]
                if eexc or gexc:
                    if bool(eexc)!=bool(gexc): note(('ondisk exc mismatch', mem.ndim, eexc, gexc), (idx,))
                    continue
                if not eqa(g,e): note(('ondisk label idx', mem.ndim, tuple(type(i).__name__ for i in idx)),(idx, g, e))
                # position
                pidx = tuple(rng.choice([rng.randrange(ax.size), slice(None), slice(0,ax.size,2), sorted(rng.sample(range(ax.size), rng.randint(1,ax.size))), -1]) for ax in mem.axes)
                try:
                    e=mem.ix[pidx]; g=f[k].ix[pidx]
                    if not eqa(g,e): note(('ondisk pos idx', mem.ndim),(pidx,g,e))
                except Exception as ex: note(('ondisk pos exc', type(ex).__name__, str(ex)[:60]),(pidx,))
    finally:
        f.close()
for k,v in sorted(fails.items(), key=str):
    print(k, len(v), repr(v[-1])[:300].replace("\n"," "))
print("n fails", len(fails))
