import numpy as np, warnings
warnings.simplefilter('ignore')
from gen import *
a = DimArray(np.arange(6.).reshape(2,3), axes=[Axis(np.array([1,2]),'x'), Axis(np.array([30,10,20]),'y')])
r = a.flatten()
print(r.labels)
a.axes['x'][0] = 99   # relabel source in place
print("source relabelled; flattened cached labels:", r.labels, " unflatten labels:", r.unflatten().labels[0], "member:", r.axes[0].axes[0].values)
r2 = a.flatten(); print("fresh flatten:", r2.labels)
# monotonic cache
ax = Axis(np.array([1,2,3]),'t'); print(ax.is_monotonic()); ax[0]=10; print(ax.is_monotonic(), ax._monotonic)
ax = Axis(np.array([1,2,3]),'t'); ax.is_monotonic(); ax.values = [3,1,2]; print(ax.is_monotonic())
ax = Axis(np.array([1,2,3]),'t'); ax.is_monotonic(); ax.set([3,1,2]); print(ax.is_monotonic())
b = DimArray(np.arange(3.), axes=[Axis(np.array([1,2,3]),'t')]); b.axes[0].is_monotonic(); b.t = [3,1,2]; print(b.axes[0].is_monotonic())
b = DimArray(np.arange(3.), axes=[Axis(np.array([1,2,3]),'t')]); b.axes[0].is_monotonic(); b.labels = [[3,1,2]]; print(b.axes[0].is_monotonic())
# slice keeps cached
b = DimArray(np.arange(3.), axes=[Axis(np.array([3,1,2]),'t')]); b.axes[0].is_monotonic(); s=b.axes[0][0:2]; print(s.values, s.is_monotonic())
b = DimArray(np.arange(4.), axes=[Axis(np.array([1,2,3,4]),'t')]); b.axes[0].is_monotonic(); s=b.axes[0][::2]; print(s.values, s._monotonic)
# transposed shares axes
t = a.T; t.axes['y'][0] = -5; print("a labels after modifying transposed result:", a.labels[1])
