import numpy as np, warnings, itertools
warnings.simplefilter('ignore')
from gen import *
a = DimArray(np.arange(24.).reshape(2,3,4), dims=['x','y','z'])
for sub in itertools.chain(*[itertools.permutations('xyz', k) for k in (1,2,3)]):
    for ins in [None]+list(range(0, 4-len(sub))):
        kw = {} if ins is None else {'insert':ins}
        try:
            r = a.flatten(sub, **kw); s = r.dims
        except RecursionError as ex:
            s = 'RECURSION'
        except Exception as ex:
            s = type(ex).__name__+str(ex)[:40]
        print(sub, ins, s)
