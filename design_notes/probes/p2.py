import numpy as np, warnings, itertools, sys
warnings.simplefilter('ignore')
import dimarray as da
from dimarray import DimArray, Dataset, Axis
print(da.__file__)
def t(label, f):
    try:
        r = f()
        print("OK  ", label, "->", repr(r).replace("\n"," | ")[:400])
    except Exception as e:
        print("EXC ", label, "->", type(e).__name__, str(e)[:200])
a = DimArray(np.arange(6.).reshape(2,3), axes=[np.array(['a','b']), np.array([30,10,20])], dims=['x','y'])
c = DimArray(10+np.arange(6.).reshape(3,2), axes=[np.array([10,20,40]), np.array(['b','c'])], dims=['y','x'])
t("a+c", lambda: a+c)
t("c+a", lambda: c+a)
t("align", lambda: da.align([a, c]))
t("align inner", lambda: da.align([a, c], join='inner'))
t("align sort", lambda: da.align([a, c], sort=True))
# single dim only in one input + sort
d = DimArray(np.arange(3.), axes=[np.array([3,1,2])], dims=['z'])
e = DimArray(np.arange(2.), axes=[np.array([5,4])], dims=['w'])
r = da.align([d,e], sort=True)
t("align sort single", lambda: (r, d))
# Dataset
t("Dataset", lambda: Dataset(a=a, c=c))
ds = Dataset()
ds['a'] = a
t("ds set mismatch", lambda: ds.__setitem__('c', c))
print(ds.dims, list(ds.keys()))
f = DimArray(np.zeros((2,3)), axes=[np.array([1,2]), np.array([1,2,3])], dims=['newdim','y'])
t("ds set mismatch after new axis", lambda: ds.__setitem__('f', f))
print("after rejected:", ds.dims, list(ds.keys()))
# rdiv
t("2/a", lambda: 2/a)
t("2.//a", lambda: 2.//a)
t("a/2", lambda: a/2)
t("a//2", lambda: a//2)
t("a + ndarray", lambda: a + np.ones((2,3)))
t("a + ndarray1d", lambda: a + np.ones(3))
t("0d", lambda: DimArray(np.array(3.)))
z = DimArray(np.array(3.))
t("0d + a", lambda: z + a)
t("a + 0d", lambda: a + z)
# dict axes
t("dict w dims", lambda: DimArray(np.zeros((2,3)), axes={'x':['a','b'],'y':[1,2,3]}, dims=['x','y']))
t("dict no dims", lambda: DimArray(np.zeros((2,3)), axes={'x':['a','b'],'y':[1,2,3]}))
t("nested", lambda: DimArray({'a':{1:1,2:2},'b':{1:3,2:4}}))
t("dup dims", lambda: DimArray(np.zeros((2,2)), dims=['x','x']))
t("shape mismatch", lambda: DimArray(np.zeros((2,2)), axes=[[1,2],[1,2,3]]))
t("empty dim name", lambda: DimArray(np.zeros((2,)), dims=['']))
t("tuple pairs", lambda: DimArray(np.zeros((2,3)), axes=[('x',['a','b']),('y',[1,2,3])]))
t("Axis objs", lambda: DimArray(np.zeros((2,3)), axes=[Axis(['a','b'],'x'),Axis([1,2,3],'y')]))
t("labels+dims", lambda: DimArray(np.zeros((2,3)), labels=[['a','b'],[1,2,3]], dims=['x','y']))
t("zeros", lambda: da.zeros(axes=[['a','b'],[1,2,3]], dims=['x','y']))
t("from_json", lambda: DimArray.from_json(a.to_json()))
