import numpy as np, warnings, itertools, sys, random, traceback, operator
warnings.simplefilter('ignore')
from gen import *
rng = random.Random(int(sys.argv[1]) if len(sys.argv)>1 else 7)
fails = {}
def note(k, msg):
    fails.setdefault(k, []).append(msg)
def lookup(a, coord):
    pos=[]
    for d in a.dims:
        w=[k for k,v in enumerate(a.axes[d].values) if v==coord[d]]
        if not w: return None
        pos.append(w[0])
    return a.values[tuple(pos)]
for it in range(4000):
    nd = rng.randint(0,3)
    dims = rng.sample(DIMS, nd)
    square = rng.random()<0.4
    sizes = [2]*nd if square else [rng.randint(1,3) for _ in dims]
    kinds = [rng.choice(['i','f','s']) for _ in dims]
    base = mk_array(rng, dims=dims, sizes=sizes, kinds=kinds)
    narr = rng.randint(1,4)
    variant = rng.choice(['equal','equal','perm-labels','overlap','dimorder','disjoint'])
    arrays=[]
    for j in range(narr):
        axes=[]
        for ax,k in zip(base.axes,kinds):
            lab = ax.values.copy()
            if j>0:
                if variant=='perm-labels' and len(lab)>1:
                    lab = lab[::-1].copy()
                elif variant in('overlap','disjoint'):
                    pool = {'i': list(range(-6,31)), 'f':[x/2 for x in range(-11,41)], 's':list('abcdefghijklmnop')}[k]
                    new = rng.sample([p for p in pool if p not in lab.tolist()], len(lab))
                    if variant=='overlap' and len(lab)>1: new[0]=lab[0]
                    if k=='s':
                        l2=np.empty(len(new),dtype=object); l2[:]=new; lab=l2
                    else: lab=np.array(new,dtype=lab.dtype)
            axes.append(Axis(lab, ax.name))
        vals = np.array(rng.sample(range(1000), base.size), dtype=float).reshape(base.shape)
        arr = DimArray(vals, axes=axes)
        if variant=='dimorder' and j>0 and nd>1:
            p=list(range(nd)); p=p[::-1]; arr=arr.transpose(p)
        arrays.append(arr)
    aligned_inputs = variant in ('equal',) or narr==1 or nd==0 or (variant=='perm-labels' and all(s<2 for s in sizes)) or (variant=='dimorder' and nd<2)
    which = rng.choice(['stack','concat'])
    align = rng.choice([False,True]); sort = rng.choice([False,True]) if align else False
    kw = dict(align=align)
    if align: kw['sort']=sort
    if which=='stack':
        keys = rng.choice([None, list('pqrs')[:narr], [10,20,30,40][:narr]])
        asdict = keys is not None and rng.random()<0.3
        try:
            if asdict:
                r = da.stack(dict(zip(keys,arrays)), axis='new', **kw); 
            else:
                r = da.stack(arrays, axis='new', keys=keys, **kw)
        except ValueError as ex:
            if not aligned_inputs and not align: continue   # correct refusal
            if variant=='dimorder': note(('stack refuse dimorder', align), 0); continue
            note(('stack ValueError', variant, align, str(ex)[:50]), [ (x.dims,x.labels) for x in arrays]); continue
        except Exception as ex:
            note(('stack exc', variant, align, type(ex).__name__, str(ex)[:60]), [ (x.dims,x.labels) for x in arrays]); continue
        if not aligned_inputs and not align and variant!='dimorder':
            note(('stack should refuse', variant), [ (x.dims,x.labels) for x in arrays]); continue
        ek = keys if keys is not None else list(range(narr))
        if r.dims[0]!='new' or r.axes[0].values.tolist()!=list(ek): note(('stack newaxis',),(r.dims, r.axes[0].values)); continue
        for j,k in enumerate(ek):
            sl = r.take(j, axis=0, indexing='position') if r.ndim>1 else r.values[j]
            src = arrays[j]
            if r.ndim==1:
                if sl!=src.values: note(('stack 0d',),0)
                continue
            bad=False
            for ix in np.ndindex(*sl.shape):
                coord={d:sl.axes[d].values[i] for d,i in zip(sl.dims,ix)}
                e = lookup(src, coord); g=sl.values[ix]
                if e is None:
                    if not np.isnan(g): bad=True; break
                elif g!=e: bad=True; break
            # also every src element must appear
            if not bad:
                for ix in np.ndindex(*src.shape):
                    coord={d:src.axes[d].values[i] for d,i in zip(src.dims,ix)}
                    if lookup(sl, coord)!=src.values[ix]: bad=True;break
            if bad: note(('stack misaligned', variant, align, sort), [ (x.dims,x.labels) for x in arrays]+[r.dims]); break
    else:
        if nd==0: continue
        k = rng.randrange(nd); axis = rng.choice([dims[k], k])
        try:
            r = da.concatenate(arrays, axis=axis, **kw)
        except ValueError as ex:
            # secondary mismatch → fine
            sec_ok = all(all(arrays[0].axes[d].values.tolist()==x.axes[d].values.tolist() for d in dims if d!=dims[k]) for x in arrays) and all(x.dims==arrays[0].dims for x in arrays)
            if not sec_ok and not align: continue
            if variant=='dimorder': note(('concat refuse dimorder', align),0); continue
            note(('concat ValueError', variant, align, str(ex)[:50]), [ (x.dims,x.labels) for x in arrays]); continue
        except Exception as ex:
            note(('concat exc', variant, align, type(ex).__name__, str(ex)[:60]), [ (x.dims,x.labels) for x in arrays]); continue
        d0 = dims[k]
        sec_ok = all(all(arrays[0].axes[d].values.tolist()==x.axes[d].values.tolist() for d in dims if d!=d0) for x in arrays)
        if (not sec_ok and not align) :
            note(('concat should refuse', variant), [ (x.dims,x.labels) for x in arrays]); continue
        # check: along d0, labels concatenated; each input's data at own labels
        if d0 not in r.dims: note(('concat dims',),0); continue
        exp_lab = sum([x.axes[d0].values.tolist() for x in arrays], [])
        if r.axes[d0].values.tolist()!=exp_lab: note(('concat labels', variant, align), (exp_lab, r.axes[d0].values.tolist(), [x.dims for x in arrays], axis)); continue
        off=0; bad=False
        for x in arrays:
            n = x.axes[d0].size
            sl = r.take(list(range(off,off+n)), axis=d0, indexing='position'); off+=n
            for ix in np.ndindex(*x.shape):
                coord={d:x.axes[d].values[i] for d,i in zip(x.dims,ix)}
                if lookup(sl, coord)!=x.values[ix]: bad=True; break
            if bad: break
        if bad: note(('concat misaligned', variant, align, sort), [ (x.dims,x.labels) for x in arrays]+[r.dims, axis])
for k,v in sorted(fails.items(), key=str):
    print(k, len(v), repr(v[-1])[:400].replace("\n"," "))
print("n fails", len(fails))
