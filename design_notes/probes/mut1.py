import subprocess, shutil, os, sys
BASE='/tmp/probe/repo'
name, f, old, new, probe, flt = sys.argv[1:7]
d='/tmp/probe/mut_repo'; shutil.rmtree(d, ignore_errors=True); shutil.copytree(BASE, d, ignore=shutil.ignore_patterns('.git','__pycache__'))
p=os.path.join(d,f); s=open(p).read(); assert old in s
open(p,'w').write(s.replace(old.encode().decode('unicode_escape'), new.encode().decode('unicode_escape'),1))
r = subprocess.run(['/venv/bin/python', probe, '5'], cwd='/tmp/probe', env=dict(os.environ, PYTHONPATH=d), capture_output=True, text=True)
for l in (r.stdout+r.stderr).splitlines():
    if flt in l: print(l[:250])
shutil.rmtree(d, ignore_errors=True)
