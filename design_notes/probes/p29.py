import sys; sys.path.insert(0,'/tmp/probe/deps')
import numpy as np, warnings, time
warnings.simplefilter('ignore')
import icontract
import dimarray as da
from dimarray import DimArray, Axis
class WFBroken(Exception): pass
COUNT=[0]
def wellformed(self):
    COUNT[0]+=1
    ax = self._axes
    return len(ax)==self._values.ndim and tuple(a.size for a in ax)==self._values.shape and len({a.name for a in ax})==len(ax)
orig = DimArray.__init__
DimArray.__init__ = icontract.ensure(wellformed, error=WFBroken)(orig)
a = DimArray(np.arange(6.).reshape(2,3), dims=['x','y'])
b = a.T + a.mean(axis='x')
print("count", COUNT[0], b.dims)
t=time.time()
for i in range(2000): a[0]; 
print("2000 getitem with contract", time.time()-t)
DimArray.__init__ = orig
t=time.time()
for i in range(2000): a[0]; 
print("2000 getitem without", time.time()-t)
# invariant on class
try:
    D2 = icontract.invariant(lambda self: True)(DimArray)
    x = DimArray(np.arange(3.)); x.units='K'; print("invariant ok", x.attrs, (x+1).values)
except Exception as e:
    print("invariant EXC", type(e).__name__, e)
