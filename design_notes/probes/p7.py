import numpy as np, warnings, itertools, sys, random, traceback, operator
warnings.simplefilter('ignore')
from gen import *
rng = random.Random(int(sys.argv[1]) if len(sys.argv)>1 else 7)
fails = {}
def note(k, msg):
    fails.setdefault(k, []).append(msg)
POOL = {}
def labels_for(rng, d, kind):
    # pool of labels per dim of given kind
    if kind=='i': return list(range(0,6))
    if kind=='f': return [x/2 for x in range(0,6)]
    return list('abcdef')
ops = [operator.add, operator.sub, operator.mul, operator.truediv, operator.floordiv, operator.pow]
def elem(a, coord):
    # coord: dict dim->label ; returns value or None if missing
    ix=[]
    for ax in a.axes:
        l = coord[ax.name]
        w = [i for i,v in enumerate(ax.values) if v==l]
        if not w: return None
        ix.append(w[0])
    return a.values[tuple(ix)]
for it in range(1500):
    kinds = {d: rng.choice(['i','f','s']) for d in DIMS}
    def mk(rng):
        nd = rng.randint(0,3)
        dims = rng.sample(DIMS, nd)
        axes=[]
        for d in dims:
            pool = labels_for(rng, d, kinds[d])
            n = rng.randint(1,4)
            lab = rng.sample(pool, n)
            o = rng.choice(['inc','dec','shuf'])
            if o=='inc': lab.sort()
            elif o=='dec': lab.sort(reverse=True)
            if kinds[d]=='s':
                arr=np.empty(n,dtype=object); arr[:]=lab
            else: arr=np.array(lab, dtype=int if kinds[d]=='i' else float)
            axes.append(Axis(arr,d))
        shape=[ax.size for ax in axes]
        vals = np.array([rng.randint(1,9) for _ in range(int(np.prod(shape)))], dtype=float).reshape(shape)
        return DimArray(vals, axes=axes)
    a = mk(rng); b = mk(rng)
    op = rng.choice(ops)
    try:
        r = op(a,b)
    except Exception as ex:
        note(('exc', type(ex).__name__, str(ex)[:70]), (a.dims,a.labels,b.dims,b.labels)); continue
    exp_dims = tuple(a.dims) + tuple(d for d in b.dims if d not in a.dims)
    if tuple(r.dims) != exp_dims: note(('dims',), (a.dims,b.dims,r.dims)); continue
    bad=False
    for d in r.dims:
        sa = set(a.axes[d].values.tolist()) if d in a.dims else set()
        sb = set(b.axes[d].values.tolist()) if d in b.dims else set()
        got = r.axes[d].values.tolist()
        if len(got)!=len(set(got)) or set(got)!= (sa|sb):
            note(('labels', kinds[d]), (d, a.labels, b.labels, got)); bad=True
    if bad: continue
    for ix in np.ndindex(*r.shape):
        coord = {d: r.axes[d].values[i] for d,i in zip(r.dims, ix)}
        va = elem(a, coord); vb = elem(b, coord)
        g = r.values[ix]
        if va is None or vb is None:
            if not np.isnan(g): note(('value-not-nan',), (a,b,coord,g)); break
        else:
            e = op(va, vb)
            if not (g==e or (np.isnan(g) and np.isnan(e))): note(('value',op.__name__), (a,b,coord,g,e)); break
for k,v in sorted(fails.items(), key=str):
    print(k, len(v), repr(v[-1])[:600])
v = min(fails.get(('value-not-nan',),[]), key=lambda t: t[0].size*t[1].size, default=None)
if v:
    a,b,coord,g = v
    print(repr(a)); print(repr(b)); print(coord, g); print(repr(a+b))
