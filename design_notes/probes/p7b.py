import numpy as np, warnings
warnings.simplefilter('ignore')
from gen import *
a = DimArray(np.array([1.,2.,3.]), axes=[Axis(np.array([2,3,5]),'z')])
b = DimArray(np.array([10.,20.,30.]), axes=[Axis(np.array([5,3,0]),'z')])
print(a+b)
a = DimArray(np.array([1.,2.]), axes=[Axis(np.array([0.5,2.5]),'w')])
b = DimArray(np.array([10.,20.,30.,40.]), axes=[Axis(np.array([0.,2.5,1.,2.]),'w')])
print(a+b)
print(a.reindex_axis([0.5, 2.5, 0., 1., 2.]))
print(b.reindex_axis([0.5, 2.5, 0., 1., 2.]))
