import numpy as np, warnings
warnings.simplefilter('ignore')
from gen import *
from dimarray import Dataset
ds = Dataset()
a = DimArray(np.zeros((2,3)), axes=[Axis(np.array([1,2]),'x'), Axis(np.array([1,2,3]),'y')])
ds['a'] = a
ds.rename_keys({'a':'ak'})
print(ds.dims, list(ds.keys()))
ds['b'] = DimArray(np.zeros(2), axes=[Axis(np.array([1,2]),'x')])
del ds['ak']
print("after del:", ds.dims, list(ds.keys()))
# second: replace after rename_keys
ds = Dataset(); ds['a']=a; ds.rename_keys({'a':'ak'}); ds['ak'] = DimArray(np.array(3.)); print("replace renamed:", ds.dims, list(ds.keys()))
# plain
ds = Dataset(); ds['a']=a; ds['b']=DimArray(np.zeros(2), axes=[Axis(np.array([1,2]),'x')]); del ds['a']; print("plain del:", ds.dims)
ds = Dataset(); ds['a']=a; ds['a']=DimArray(np.array(3.)); print("plain replace:", ds.dims)
