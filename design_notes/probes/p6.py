import numpy as np, warnings, itertools, sys, random, traceback
warnings.simplefilter('ignore')
from gen import *
rng = random.Random(5)
fails = {}
def note(k, msg):
    fails.setdefault(k, []).append(msg)
def mkidx(rng, a):
    idx=[]; exp_pos=[]
    for ax in a.axes:
        n = ax.size
        kind = rng.choice(['scalar','list','mask','full','slice'])
        if kind=='scalar':
            p = rng.randrange(n); idx.append(ax.values[p]); exp_pos.append(p)
        elif kind=='list':
            ps = rng.sample(range(n), rng.randint(1,n))
            idx.append([ax.values[p] for p in ps]); exp_pos.append(ps)
        elif kind=='mask':
            m = np.array([rng.random()<0.5 for _ in range(n)]); idx.append(m); exp_pos.append(list(np.where(m)[0]))
        elif kind=='slice':
            i=rng.randrange(n); j=rng.randrange(i,n)
            # strict-valid both ways only if monotonic inc or nonmonotonic; use position slice semantic oracle only for str/inc
            idx.append(slice(None)); exp_pos.append(list(range(n)))
        else:
            idx.append(slice(None)); exp_pos.append(list(range(n)))
    return idx, exp_pos
for it in range(3000):
    dtype = rng.choice([float,int,bool,object])
    a = mk_array(rng, ndim=rng.randint(1,3), dtype=dtype if dtype is not bool else int)
    if dtype is bool: a = DimArray(a.values%2==0, a.axes)
    a.attrs['m']={'k':1}
    idx, pos = mkidx(rng, a)
    selshape = tuple(len(p) for p in pos if not np.isscalar(p))
    vk = rng.choice(['i','f','s','b'])
    scal = {'i':7,'f':2.5,'s':'hello','b':True}[vk]
    rhs_kind = rng.choice(['scalar','array'])
    if rhs_kind=='array' and vk!='s':
        rhs = np.full(selshape, scal)
    else:
        rhs = scal
    cast = rng.choice([True, False])
    inplace = rng.choice([True, False])
    before = a.copy()
    # expected
    kinds = (a.dtype.kind, np.asarray(rhs).dtype.kind)
    try:
        out = a.put(tuple(idx), rhs, cast=cast, inplace=inplace)
    except Exception as ex:
        note(('exc', type(ex).__name__, kinds, cast), (str(ex)[:80],)); continue
    tgt = a if inplace else out
    if not inplace:
        if not (np.array_equal(a.values, before.values) and a.dtype==before.dtype): note(('orig modified',), (idx,))
    # compute expected
    ev = before.values.copy()
    if cast:
        ak, vk2 = kinds
        if ak==vk2 or ak=='O' or (ak=='f' and vk2=='i'): pass
        elif ak=='i' and vk2=='f': ev = ev.astype(float)
        else: ev = ev.astype(object)
    ix = np.ix_(*[ [p] if np.isscalar(p) else p for p in pos])
    try:
        ev[ix] = np.asarray(rhs).reshape([1 if np.isscalar(p) else len(p) for p in pos]) if rhs_kind=='array' and vk!='s' else rhs
    except Exception as ex:
        note(('oracle-exc', kinds, cast), str(ex)[:60]); continue
    if tgt.values.dtype != ev.dtype: note(('dtype', kinds, cast), (tgt.values.dtype, ev.dtype))
    elif not all(x==y or (x!=x and y!=y) for x,y in zip(tgt.values.ravel().tolist(), ev.ravel().tolist())): note(('values', kinds, cast), (idx, tgt.values, ev))
    if cast and not (dtype is not object and False):
        # no lost value: read back
        rb = tgt[tuple(idx)]
        rbv = rb.values if hasattr(rb,'values') else rb
        exp = np.broadcast_to(np.asarray(rhs, dtype=object), np.shape(rbv))
        if not np.all(np.asarray(rbv, dtype=object)==exp): note(('readback', kinds, cast), (rbv, rhs))
    if tgt.attrs != {'m':{'k':1}}: note(('attrs',), tgt.attrs)
for k,v in sorted(fails.items(), key=str):
    print(k, len(v), v[-1])
