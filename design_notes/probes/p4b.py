import numpy as np, warnings, itertools, sys, random, traceback
warnings.simplefilter('ignore')
from gen import *
fails = {}
def note(k, msg):
    fails.setdefault(k, []).append(msg)
cnt=0
for n in range(1,6):
  for kind in ('i','f'):
    for direction in ((1,-1) if n>1 else (1,)):
        base = [2*k+1 for k in range(n)]  # 1,3,5,..
        lab = base[::direction]
        arr = np.array(lab, dtype=int if kind=='i' else float)
        a = DimArray(np.arange(n)*10., axes=[Axis(arr,'t')])
        bounds = [None] + [x/2 for x in range(-2, 2*(2*n+1)+3)]
        for lo in bounds:
          for hi in bounds:
            for step in (None,1,2,3,-1,-2):
                cnt+=1
                l, h = lo, hi
                pos = list(range(n))
                inc = direction==1
                if step is None or step>0:
                    # walk in axis order from label lo to label hi
                    sel = [p for p in pos if (l is None or (arr[p] >= l if inc else arr[p] <= l)) and (h is None or (arr[p] <= h if inc else arr[p] >= h))]
                    sel = sel[::(step or 1)]
                else:
                    sel = [p for p in pos[::-1] if (l is None or (arr[p] <= l if inc else arr[p] >= l)) and (h is None or (arr[p] >= h if inc else arr[p] <= h))]
                    sel = sel[::-step]
                try:
                    r = a[slice(lo,hi,step)]
                except Exception as ex:
                    note(('exc',type(ex).__name__, str(ex)[:60]), (lab, lo,hi,step)); continue
                got = [int(x) for x in r.values/10]
                if got != sel:
                    # classify
                    def rel(b):
                        if b is None: return 'None'
                        mn, mx = min(lab), max(lab)
                        return 'below' if b<mn else 'above' if b>mx else 'in'
                    note(('mismatch', 'inc' if inc else 'dec', 'step', step, 'lo', rel(lo), 'hi', rel(hi)), (lab, lo, hi, step, got, sel))
for k,v in sorted(fails.items(), key=str):
    print(k, len(v), v[-1])
print("done", cnt)
