import numpy as np, warnings, itertools, sys, random, copy
warnings.simplefilter('ignore')
from gen import *
from dimarray import MultiAxis
rng = random.Random(int(sys.argv[1]) if len(sys.argv)>1 else 1)
fails={}
def note(k,m): fails.setdefault(k,[]).append(m)
def rebuild_axis(ax):
    if isinstance(ax, MultiAxis):
        return MultiAxis(*[Axis(m.values.copy(), m.name) for m in ax.axes])
    return Axis(ax.values.copy(), ax.name)
def twin(x):
    return DimArray(x.values.copy(), axes=[rebuild_axis(ax) for ax in x.axes])
def desc(r):
    if isinstance(r, Exception): return ('EXC', type(r).__name__)
    if hasattr(r,'dims'): return (r.dims, tuple(tuple(map(str,l.tolist())) for l in r.labels), r.values.shape, tuple(np.asarray(r.values,dtype=object).ravel().tolist().__repr__() for _ in [0]))
    if isinstance(r,(list,tuple)): return tuple(desc(x) for x in r)
    return repr(r)
def battery(x, y):
    out=[]
    def run(f):
        try: return f()
        except Exception as e: return e
    out.append(('labels', run(lambda: tuple(tuple(map(str,l.tolist())) for l in x.labels))))
    if x.ndim:
        ax=x.axes[0]
        if ax.size and not isinstance(ax, MultiAxis):
            out.append(('get', run(lambda: x[ax.values[0]])))
            out.append(('slice', run(lambda: x[ax.values[0]:ax.values[-1]])))
            out.append(('sort', run(lambda: x.sort_axis(axis=0))))
            out.append(('rev+', run(lambda: x + x.ix[::-1])))
        if not any(',' in d for d in x.dims):
            out.append(('flat', run(lambda: x.flatten())))
            out.append(('flatlab', run(lambda: x.flatten().labels[0].tolist().__repr__())))
        out.append(('unflat', run(lambda: x.unflatten())))
        out.append(('mean', run(lambda: x.mean(axis=0))))
        out.append(('T', run(lambda: x.transpose(*range(x.ndim)[::-1]))))
    out.append(('align', run(lambda: da.align([x,y]))))
    def shifted(z):
        axes=[]
        for ax in z.axes:
            if isinstance(ax, MultiAxis) or ax.values.dtype.kind not in 'if' or ax.size<2: axes.append(Axis(ax.values.copy(), ax.name)); continue
            v = np.sort(ax.values.astype(float)); v = np.concatenate([v[1:], [v[-1]+1]])
            axes.append(Axis(v, ax.name))
        return DimArray(z.values.copy(), axes=axes)
    if not any(',' in d for d in x.dims):
        out.append(('alignshift', run(lambda: da.align([x, shifted(x)]))))
        out.append(('addshift', run(lambda: x + shifted(x))))
    return [(k,desc(v)) for k,v in out]
OPS=['getlist','slice','put','add','mean','transpose','squeeze','newaxis','flatten','unflatten','reshape','reindex','align','stack','concat','relabel','relabel_attr','rename','sort','querymono','querylabels','cumsum','setaxis']
for it in range(400):
    pool=[mk_array(rng, ndim=rng.randint(1,3)) for _ in range(2)]
    hist=[]
    CTR=0
    for step in range(rng.randint(1,10)):
        x = rng.choice(pool); op=rng.choice(OPS); hist.append((op, x.dims))
        try:
            r=None
            if x.ndim==0 and op not in ('add','newaxis','align','stack'): continue
            k = rng.randrange(x.ndim) if x.ndim else 0
            ax = x.axes[k] if x.ndim else None
            plain = ax is not None and not isinstance(ax, MultiAxis) and ax.size>0
            if op=='getlist' and plain: r = x.take([ax.values[rng.randrange(ax.size)] for _ in range(2)], axis=k)
            elif op=='slice' and plain: r = x.take(slice(None), axis=k) if rng.random()<.5 else x.ix[tuple([slice(None)]*k+[slice(0,None,2)])]
            elif op=='put' and plain: x.put(ax.values[0], 1.5, axis=k)
            elif op=='add': r = x + rng.choice(pool)
            elif op=='mean': r = x.mean(axis=k)
            elif op=='transpose': p=list(range(x.ndim)); rng.shuffle(p); r=x.transpose(p)
            elif op=='squeeze': r=x.squeeze()
            elif op=='newaxis': CTR+=1; r=x.newaxis('n%d_%d'%(it,CTR) if False else 'n%d'%CTR, pos=rng.randint(0,x.ndim))
            elif op=='flatten' and not any(',' in d for d in x.dims): 
                sub=rng.sample(list(x.dims), rng.randint(1,x.ndim)); r=x.flatten(sub, insert=0)
            elif op=='unflatten': r=x.unflatten()
            elif op=='reshape': d=list(x.dims); rng.shuffle(d); r=x.reshape(d)
            elif op=='reindex' and plain: r=x.reindex_axis(ax.values[::-1].copy(), axis=k)
            elif op=='align': r=da.align([x, rng.choice(pool)])[0]
            elif op=='stack' and not any(',' in d for d in x.dims): r=da.stack([x,x], axis='s%d'%step)
            elif op=='concat' and plain: r=da.concatenate([x,x], axis=k)
            elif op=='relabel' and plain and ax.values.dtype.kind in 'if': ax[rng.randrange(ax.size)] = 1000+step+it
            elif op=='relabel_attr' and plain and ax.values.dtype.kind in 'if' and ',' not in ax.name: setattr(x, ax.name, (np.arange(ax.size)+2000+step)[::-1])
            elif op=='setaxis' and plain: x.set_axis(list(range(3000+step, 3000+step+ax.size))[::-1], axis=k)
            elif op=='rename' and not isinstance(ax, MultiAxis): CTR+=1; ax.name = ax.name+'r%d'%CTR
            elif op=='sort' and plain: r=x.sort_axis(axis=k)
            elif op=='querymono' and ax is not None and not isinstance(ax, MultiAxis): ax.is_monotonic()
            elif op=='querylabels': x.labels
            elif op=='cumsum': r=x.cumsum(axis=k)
            if isinstance(r, DimArray) and r.ndim<=4 and r.size<=200: pool.append(r)
            if len(pool)>6: pool.pop(rng.randrange(len(pool)))
        except Exception as ex:
            hist[-1]=hist[-1]+('EXC '+type(ex).__name__+' '+str(ex)[:50],)
            continue
        # compare every live array against its twin
        other = pool[0]
        for i,z in enumerate(pool):
            try: tw = twin(z)
            except Exception as ex:
                note(('twin fail', type(ex).__name__, str(ex)[:60]), hist[-4:]); continue
            b1 = battery(z, other); b2 = battery(tw, twin(other))
            for (k1,d1),(k2,d2) in zip(b1,b2):
                if d1!=d2:
                    note(('diverge', k1, hist[-1][0]), (hist[-5:], d1, d2)); break
for k,v in sorted(fails.items(), key=str):
    print(k, len(v), repr(v[0])[:700].replace("\n"," "))
print("n fails", len(fails))
