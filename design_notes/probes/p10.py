import numpy as np, warnings, itertools, sys, random, traceback, operator
warnings.simplefilter('ignore')
from gen import *
rng = random.Random(int(sys.argv[1]) if len(sys.argv)>1 else 7)
fails = {}
def note(k, msg):
    fails.setdefault(k, []).append(msg)
def eq(a,b):
    a=np.asarray(a); b=np.asarray(b)
    if a.shape!=b.shape: return False
    try:
        return bool(np.all((a==b)|((a!=a)&(b!=b))))
    except Exception: return False
FUNCS=['sum','prod','mean','var','std','min','max','ptp','all','any','median']
for it in range(6000):
    nd = rng.randint(1,4)
    dtype = rng.choice([float,float,int,bool])
    a = mk_array(rng, ndim=nd, dtype=float if dtype is float else int, nan=(dtype is float and rng.random()<0.7))
    if dtype is bool: a = DimArray(a.values%2==0, a.axes)
    if dtype is float and rng.random()<0.2:
        # all-nan slice
        k=rng.randrange(nd); ix=[slice(None)]*nd; ix[k]=rng.randrange(a.shape[k]); a.values[tuple(ix)]=np.nan
    a.attrs['u']='m'
    f = rng.choice(FUNCS); skipna = rng.choice([False,True])
    mode = rng.choice(['name','pos','none','tuple'])
    v = a.values
    hasnan = dtype is float and np.isnan(v).any()
    if mode=='none':
        axis=None; npaxis=None
    elif mode=='tuple':
        ds = rng.sample(list(a.dims), rng.randint(1,nd)); axis=tuple(ds); npaxis=tuple(a.dims.index(d) for d in ds)
    else:
        k=rng.randrange(nd); axis = a.dims[k] if mode=='name' else k; npaxis=k
    try:
        r = getattr(a,f)(axis=axis, skipna=skipna)
    except Exception as ex:
        note(('exc', f, skipna, mode, str(a.dtype), type(ex).__name__, str(ex)[:60]), (a.shape,axis)); continue
    # expected
    with np.errstate(all='ignore'):
        if not skipna:
            if f=='median':
                e = np.median(v, axis=npaxis)
                if hasnan:
                    m = np.isnan(v).any(axis=npaxis)
                    e = np.where(m, np.nan, e) if np.ndim(e) else (np.nan if m else e)
            else:
                e = getattr(np,f)(v, axis=npaxis)
        else:
            if dtype is float:
                nf = getattr(np,'nan'+f,None)
                if nf is not None: e = nf(v, axis=npaxis)
                else:
                    mv = np.ma.array(v, mask=np.isnan(v)); e = getattr(np.ma,f)(mv, axis=npaxis)
                    e = e.filled(np.nan) if np.ma.isMaskedArray(e) else e
            else:
                e = getattr(np,f)(v, axis=npaxis) if f!='median' else np.median(v,axis=npaxis)
    rv = r.values if hasattr(r,'values') else r
    if not eq(np.asarray(rv,dtype=float), np.asarray(e,dtype=float)):
        note(('values', f, skipna, mode, str(a.dtype), 'nan' if hasnan else 'nonan'), (a.values, axis, rv, e)); continue
    # axes
    if mode in ('name','pos','tuple'):
        red = set([a.dims[npaxis]] if mode!='tuple' else axis)
        exp_dims = tuple(d for d in a.dims if d not in red)
        if not exp_dims:
            if hasattr(r,'dims') and r.ndim!=0: note(('scalar-result-dims', mode), (a.dims, axis, r.dims))
        else:
            if not hasattr(r,'dims'): note(('lost-dimarray', f, mode), (a.dims, axis, type(r))); continue
            if r.dims != exp_dims: note(('dims', f, mode), (a.dims,axis,r.dims)); continue
            for d in exp_dims:
                if r.axes[d].values.tolist()!=a.axes[d].values.tolist(): note(('labels',f,mode), d)
            if r.attrs != {'u':'m'}: note(('attrs', f, mode), r.attrs)
    else:
        if hasattr(r,'dims'): note(('none-not-scalar',f), type(r))
for k,v in sorted(fails.items(), key=str):
    print(k, len(v), repr(v[-1])[:300].replace("\n"," "))
print("n fails", len(fails))
