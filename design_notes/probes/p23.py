import sys; sys.path.insert(0,'/tmp/probe/fakenc')
import numpy as np, warnings, os
warnings.simplefilter('ignore')
import dimarray as da
from dimarray import DimArray, Dataset, Axis
print(da._ncio)
def t(label, f):
    try:
        r = f()
        print("OK  ", label, "->", repr(r).replace("\n"," | ")[:400])
    except Exception as e:
        import traceback
        print("EXC ", label, "->", type(e).__name__, str(e)[:200]); 
        if '-v' in sys.argv: traceback.print_exc()
os.makedirs('/tmp/probe/nc', exist_ok=True)
fn='/tmp/probe/nc/t1.nc'
a = DimArray(np.array([[1.,np.nan,3.],[4.,5.,6.]]), axes=[Axis(np.array(['a','b'],dtype=object),'x'), Axis(np.array([30,10,20]),'y')])
a.attrs['units']='K'; a.axes['y'].attrs['long']='why'
b = DimArray(np.array([7,8,9]), axes=[Axis(np.array([30,10,20]),'y')])
z = DimArray(np.array(3.5))
s = DimArray(np.array(['u','v'],dtype=object), axes=[Axis(np.array(['a','b'],dtype=object),'x')])
ds = Dataset(a=a,b=b,z=z,s=s); ds.attrs['title']='T'
t("write", lambda: ds.write_nc(fn))
t("read", lambda: da.read_nc(fn))
r = da.read_nc(fn)
for k in ds.keys():
    t("var "+k, lambda: (r[k], r[k].attrs, r[k].dtype))
t("ds attrs", lambda: r.attrs)
t("axis attrs", lambda: r.axes['y'].attrs)
t("labels", lambda: r.labels)
t("read var", lambda: da.read_nc(fn,'a'))
t("read idx", lambda: da.read_nc(fn,'a', indices={'y':10}))
t("read idx pos", lambda: da.read_nc(fn,'a', indices={'y':0}, indexing='position'))
t("read tol", lambda: da.read_nc(fn,'a', indices={'y':11}, tol=2))
f = da.open_nc(fn)
t("ondisk a[:]", lambda: f['a'][:])
t("ondisk a['b', [10,30]]", lambda: f['a']['b',[10,30]])
t("ondisk ix", lambda: f['a'].ix[0, 1:])
t("ondisk slice label", lambda: f['a'][:, 10:20])
t("ondisk sel", lambda: f['a'].sel(x='a'))
t("ondisk z", lambda: f['z'][()])
t("ondisk z[:]", lambda: f['z'][:])
t("ondisk s", lambda: f['s'][:])
t("ondisk mask", lambda: f['a'][np.array([True,False])])
f.close()
t("append var", lambda: DimArray(np.array([1,2,3]), axes=[Axis(np.array([30,10,20]),'y')]).write_nc(fn,'c',mode='a'))
t("read after append", lambda: da.read_nc(fn))
f = da.open_nc(fn, mode='a')
def w(): f['a']['b',10] = 55.
t("ondisk write", w)
t("after", lambda: f['a'][:])
f.close()
t("netcdf3", lambda: Dataset(a=a,b=b).write_nc(fn+'3', format='NETCDF3_CLASSIC'))
t("read netcdf3", lambda: da.read_nc(fn+'3'))
t("DimArray.write_nc", lambda: a.write_nc(fn+'x', 'a'))
t("read", lambda: da.read_nc(fn+'x'))
t("dims order", lambda: da.read_nc(fn).dims)
