import numpy as np, warnings
warnings.simplefilter('ignore')
from gen import *
a = DimArray(np.array([1.,2.]), axes=[Axis(np.array([2,3]),'z')])
r = a.broadcast([Axis(np.array([7]),'q'), a.axes[0]])
print(repr(r), r.axes['q'].values)
r = a.broadcast([Axis(np.array([7,8]),'q'), a.axes[0]])
print(repr(r), r.axes['q'].values)
b = DimArray(np.array([[1.,2.]]), axes=[Axis(np.array([7]),'q'), Axis(np.array([2,3]),'z')])
print(da.broadcast_arrays(a,b))
print(a+b)
print(b+a)
