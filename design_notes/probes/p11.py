import numpy as np, warnings, itertools, sys, random, traceback, operator
warnings.simplefilter('ignore')
from gen import *
rng = random.Random(int(sys.argv[1]) if len(sys.argv)>1 else 7)
fails = {}
def note(k, msg):
    fails.setdefault(k, []).append(msg)
def eq(a,b):
    a=np.asarray(a); b=np.asarray(b)
    if a.shape!=b.shape: return False
    return bool(np.all((a==b)|((a!=a)&(b!=b))))
for it in range(6000):
    nd = rng.randint(1,4)
    dims = rng.sample(DIMS, nd)
    sizes = [rng.randint(1,5) for _ in dims]
    kinds = [rng.choice(['i','f','s']) for _ in dims]
    a = mk_array(rng, dims=dims, sizes=sizes, kinds=kinds, dtype=rng.choice([float,int]))
    a.attrs['u']='m'
    k = rng.randrange(nd); axis = rng.choice([dims[k], k])
    what = rng.choice(['cumsum','cumprod','diff','argmin','argmax','cumdefault','argnone'])
    v=a.values
    try:
        if what in ('cumsum','cumprod'):
            r = getattr(a,what)(axis=axis); e = getattr(np,what)(v,axis=k)
            if not eq(r.values,e): note((what,'values'),0)
            if r.dims!=a.dims or any(x.tolist()!=y.tolist() for x,y in zip(r.labels,a.labels)): note((what,'axes'),0)
            if r.attrs!={'u':'m'}: note((what,'attrs'), r.attrs)
        elif what=='cumdefault':
            r = a.cumsum(); e=np.cumsum(v,axis=-1)
            if not eq(r.values,e): note((what,'values'),0)
        elif what=='diff':
            n = rng.choice([1,2,3]); scheme=rng.choice(['backward','forward','centered']); keep = rng.choice([False,True])
            if scheme=='centered' and (keep or kinds[k]=='s'): continue
            if n > sizes[k]-0 and False: continue
            try:
                r = a.diff(axis=axis, n=n, scheme=scheme, keepaxis=keep)
            except Exception as ex:
                note(('diff exc', type(ex).__name__, str(ex)[:60], n, sizes[k], scheme, keep), 0); continue
            e = np.diff(v, n=n, axis=k)
            lab = a.axes[k].values
            if not keep:
                if not eq(r.values, e): note(('diff values', scheme, n), (v, r.values, e)); continue
                if scheme=='backward': el = lab[n:]
                elif scheme=='forward': el = lab[:len(lab)-n] if n<=len(lab) else lab[:0]
                else:
                    el = lab.astype(float)
                    for _ in range(n): el = 0.5*(el[:-1]+el[1:])
                if r.axes[k].values.tolist()!=list(el.tolist()): note(('diff labels', scheme, n, sizes[k]), (lab, r.axes[k].values, el))
            else:
                if r.axes[k].values.tolist()!=lab.tolist(): note(('diff keep labels',scheme,n),0)
                pad = [(0,0)]*nd
                m = min(n, sizes[k])
                # expected: nan padded on the side
                ee = np.full(v.shape, np.nan)
                sl=[slice(None)]*nd
                if e.shape[k]>0:
                    sl[k] = slice(n,None) if scheme=='backward' else slice(0, v.shape[k]-n)
                    ee[tuple(sl)] = e
                if not eq(r.values, ee): note(('diff keep values', scheme, n, sizes[k]), (v, r.values, ee))
            if r.attrs!={'u':'m'}: note(('diff attrs',), r.attrs)
        elif what in ('argmin','argmax'):
            r = getattr(a,what)(axis=axis)
            pos = getattr(np,what)(v,axis=k)
            e = a.axes[k].values[pos]
            rv = r.values if hasattr(r,'values') else r
            if not np.all(np.asarray(rv,dtype=object)==np.asarray(e,dtype=object)): note((what,'labels'),(rv,e))
            if nd>1:
                ed = tuple(d for d in a.dims if d!=dims[k])
                if r.dims!=ed: note((what,'dims'),(r.dims,ed))
        else:
            f = rng.choice(['argmin','argmax'])
            r = getattr(a,f)()
            g = a[r] if nd>0 else None
            ext = v.min() if f=='argmin' else v.max()
            if g != ext: note(('argnone',f), (r, g, ext))
    except Exception as ex:
        note(('exc', what, type(ex).__name__, str(ex)[:80]), (a.shape, axis))
# ties & nans
for it in range(1000):
    n=rng.randint(1,5); m=rng.randint(1,4)
    v = np.array([[rng.choice([1.,2.,np.nan,1.]) for _ in range(m)] for _ in range(n)])
    a = DimArray(v, axes=[Axis(mk_labels(rng,n),'x'), Axis(mk_labels(rng,m),'y')])
    for f in ('argmin','argmax'):
        for skipna in (False,True):
            try:
                r = getattr(a,f)(axis='x', skipna=skipna)
                r0 = getattr(a,f)(skipna=skipna)
            except Exception as ex:
                note(('tie exc',f,skipna,type(ex).__name__,str(ex)[:50]),v); continue
            # check indexing returns extremum per column
            for j in range(m):
                lab = r.values[j]; col = v[:,j]
                got = a[lab, a.axes['y'].values[j]]
                if skipna:
                    if np.all(np.isnan(col)): continue
                    ext = np.nanmin(col) if f=='argmin' else np.nanmax(col)
                else:
                    ext = np.min(col) if f=='argmin' else np.max(col)
                if not (got==ext or (got!=got and ext!=ext)): note(('tie value',f,skipna),(v,j,lab,got,ext))
for k,v in sorted(fails.items(), key=str):
    print(k, len(v), repr(v[-1])[:300].replace("\n"," "))
print("n fails", len(fails))
