import numpy as np, warnings, itertools, sys, random, traceback, operator
warnings.simplefilter('ignore')
from gen import *
rng = random.Random(int(sys.argv[1]) if len(sys.argv)>1 else 7)
fails = {}
def note(k, msg):
    fails.setdefault(k, []).append(msg)
def coord_equal(a, r, extra_ok=()):
    # every element of r at label coord equals a's at same coords restricted to a.dims
    for ix in np.ndindex(*r.shape):
        coord = {d: r.axes[d].values[i] for d,i in zip(r.dims, ix)}
        pos=[]
        for d in a.dims:
            w=[k for k,v in enumerate(a.axes[d].values) if v==coord[d]]
            if not w: return False
            pos.append(w[0])
        if r.values[ix]!=a.values[tuple(pos)]: return False
    return True
def mk(rng, nd=None):
    nd = rng.randint(0,4) if nd is None else nd
    dims = rng.sample(DIMS, nd)
    sizes = rng.sample([1,2,3,4,5], nd)  # distinct lengths
    a = mk_array(rng, dims=dims, sizes=sizes)
    a.attrs['u']='m'
    return a
for it in range(5000):
    a = mk(rng); nd=a.ndim
    what = rng.choice(['transpose','T','swapaxes','rollaxis','newaxis','squeeze','repeat','broadcast','broadcast_arrays','roundtrip'])
    try:
        if what=='transpose':
            if nd==0: continue
            p = list(range(nd)); rng.shuffle(p)
            arg = [rng.choice([i, a.dims[i]]) for i in p]
            r = a.transpose(*arg) if rng.random()<.5 else a.transpose(arg)
            if r.dims != tuple(a.dims[i] for i in p): note((what,'dims'),0)
            if not np.array_equal(r.values, a.values.transpose(p)): note((what,'values'),0)
            if not coord_equal(a,r): note((what,'coord'),0)
            if r.attrs!={'u':'m'}: note((what,'attrs'),r.attrs)
        elif what=='T':
            if nd>2: continue
            r=a.T
            if r.dims!=a.dims[::-1] or not coord_equal(a,r): note((what,),0)
        elif what=='swapaxes':
            if nd<1: continue
            i,j = rng.randrange(nd), rng.randrange(nd)
            r = a.swapaxes(rng.choice([i,a.dims[i]]), rng.choice([j,a.dims[j]]))
            ed=list(a.dims); ed[i],ed[j]=ed[j],ed[i]
            if r.dims!=tuple(ed) or not coord_equal(a,r) or not np.array_equal(r.values, a.values.swapaxes(i,j)): note((what,),(a.dims,i,j,r.dims))
            if r.attrs!={'u':'m'}: note((what,'attrs'),r.attrs)
        elif what=='rollaxis':
            if nd<1: continue
            i = rng.randrange(nd); start = rng.randint(0,nd)
            r = a.rollaxis(rng.choice([i,a.dims[i]]), start)
            e = np.rollaxis(a.values, i, start)
            if not np.array_equal(r.values,e) or not coord_equal(a,r): note((what,),(a.dims,i,start,r.dims))
            if r.attrs!={'u':'m'}: note((what,'attrs'),r.attrs)
        elif what=='newaxis':
            pos = rng.randint(0,nd)
            vals = rng.choice([None, [7,8,9]])
            r = a.newaxis('n', values=vals, pos=pos)
            ed = list(a.dims); ed.insert(pos,'n')
            if r.dims!=tuple(ed): note((what,'dims'),(a.dims,pos,r.dims)); continue
            if vals is not None and r.axes['n'].values.tolist()!=vals: note((what,'labels'),0)
            if not coord_equal(a,r): note((what,'coord'),0)
            if r.attrs!={'u':'m'}: note((what,'attrs'),r.attrs)
        elif what=='squeeze':
            r0 = a.newaxis('n', pos=rng.randint(0,nd))
            r = r0.squeeze(rng.choice([None,'n', r0.dims.index('n')]))
            ed = tuple(d for d in r0.dims if r0.axes[d].size!=1) if False else None
            if 'n' in r.dims or not coord_equal(a, r) : note((what,),(a.dims, r.dims))
            if r.attrs!={'u':'m'}: note((what,'attrs'),r.attrs)
        elif what=='repeat':
            pos=rng.randint(0,nd)
            r0 = a.newaxis('n', pos=pos)
            vals = rng.choice([3, [5,6], np.array([1.5,2.5]), Axis([1,2,3],'n')])
            r = r0.repeat(vals, axis=rng.choice(['n',pos]))
            if r.dims!=r0.dims or not coord_equal(a,r): note((what,),0)
            if r.attrs!={'u':'m'}: note((what,'attrs'),r.attrs)
        elif what=='broadcast':
            b = mk(rng, nd=rng.randint(0,2))
            # target: all dims of a plus b's extra dims in random order
            extra=[ax for ax in b.axes if ax.name not in a.dims]
            tgt = [ax for ax in a.axes]+extra; rng.shuffle(tgt)
            r = a.broadcast(tgt)
            if r.dims!=tuple(ax.name for ax in tgt): note((what,'dims'),(a.dims,[ax.name for ax in tgt],r.dims)); continue
            for ax in tgt:
                if r.axes[ax.name].values.tolist()!=ax.values.tolist(): note((what,'labels'),0)
            if not coord_equal(a,r): note((what,'coord'),0)
            if r.attrs!={'u':'m'}: note((what,'attrs'),r.attrs)
        elif what=='broadcast_arrays':
            b = mk(rng)
            # make shared dims consistent
            ok=True
            for d in b.dims:
                if d in a.dims and b.axes[d].values.tolist()!=a.axes[d].values.tolist(): ok=False
            if not ok: continue
            ra, rb = da.broadcast_arrays(a,b)
            ed = tuple(a.dims)+tuple(d for d in b.dims if d not in a.dims)
            if ra.dims!=ed or rb.dims!=ed: note((what,'dims'),(a.dims,b.dims,ra.dims,rb.dims)); continue
            if ra.shape!=rb.shape: note((what,'shape'),0)
            if not coord_equal(a,ra) or not coord_equal(b,rb): note((what,'coord'),0)
        else:
            if nd==0: continue
            p=list(range(nd)); rng.shuffle(p); inv=[p.index(i) for i in range(nd)]
            r=a.transpose(p).transpose(inv)
            if r.dims!=a.dims or not np.array_equal(r.values,a.values): note((what,),0)
    except Exception as ex:
        note(('exc', what, type(ex).__name__, str(ex)[:80]), (a.dims, a.shape))
for k,v in sorted(fails.items(), key=str):
    print(k, len(v), repr(v[-1])[:300].replace("\n"," "))
print("n fails", len(fails))
