import sys; sys.path.insert(0,'/tmp/probe/fakenc')
import numpy as np, warnings, os, random, shutil
warnings.simplefilter('ignore')
from gen import *
from dimarray import Dataset
def t(label, f):
    try:
        r = f(); print("OK  ", label, "->", repr(r).replace("\n"," | ")[:300])
    except Exception as e:
        print("EXC ", label, "->", type(e).__name__, str(e)[:200])
        if '-v' in sys.argv:
            import traceback; traceback.print_exc()
d='/tmp/probe/nc/w'; shutil.rmtree(d, ignore_errors=True); os.makedirs(d)
a = DimArray(np.arange(6.).reshape(2,3), axes=[Axis(np.array(['a','b'],dtype=object),'x'), Axis(np.array([30,10,20]),'y')])
fn=d+'/a.nc'
a.write_nc(fn,'a')
f = da.open_nc(fn, mode='a')
def w1(): f['a']['b',[10,30]] = [100.,300.]
t("ondisk write list", w1); t("read", lambda: f['a'][:].values)
def w2(): f['a'].ix[0, :] = np.array([7.,8.,9.])
t("ondisk ix write", w2); t("read", lambda: f['a'][:].values)
def w3(): f['a'][:, 10:20] = 0.
t("ondisk slice write", w3); t("read", lambda: f['a'][:].values)
def w4(): f['a'][np.array([True,False])] = -1.
t("ondisk mask write", w4); t("read", lambda: f['a'][:].values)
def w5(): f['a'][{'y':30}] = 55.
t("ondisk dict write", w5); t("read", lambda: f['a'][:].values)
def w6(): f['new'] = DimArray(np.array([1,2,3]), axes=[Axis(np.array([30,10,20]),'y')])
t("ondisk new var", w6); t("keys", lambda: f.keys())
def w7(): f['bad'] = DimArray(np.array([1,2,3]), axes=[Axis(np.array([1,2,3]),'y')])
t("ondisk new var mismatching axis", w7); t("keys", lambda: (f.keys(), f['bad'][:] if 'bad' in f.keys() else None))
f.close()
t("final", lambda: da.read_nc(fn)['a'].values)
# unlimited
fn2=d+'/u.nc'
g = da.open_nc(fn2, mode='w')
def u1():
    g.axes.append('time')  # unlimited
    g.axes.append(Axis(np.array(['p','q'],dtype=object),'item'))
    g.nc.createVariable('v', 'f8', ('time','item'))
t("create unlimited", u1)
def u2(): g['v'].ix[0] = DimArray(np.array([1.,2.]), axes=[Axis(np.array(['p','q'],dtype=object),'item')])
t("write row 0 (no time label)", u2)
def u3(): g['v'].ix[0] = DimArray(np.array([[1.,2.]]), axes=[Axis(np.array([2000]),'time'), Axis(np.array(['p','q'],dtype=object),'item')])
t("write row 0 w/ time label", u3)
def u4(): g['v'].ix[1:3] = DimArray(np.array([[3.,4.],[5.,6.]]), axes=[Axis(np.array([2001,2002]),'time'), Axis(np.array(['p','q'],dtype=object),'item')])
t("write rows 1:3", u4)
t("read", lambda: g['v'][:])
t("dims", lambda: (g.dims, len(g.nc.dimensions['time'])))
g.close()
t("read back", lambda: da.read_nc(fn2)['v'])
# multi file
b1 = DimArray(np.array([1,2,3]), axes=[Axis(np.array([0,1,2]),'x0')]); b2 = DimArray(np.array([33,11]), axes=[Axis(np.array([2,0]),'x0')])
b1.write_nc(d+'/m1.nc','a'); b2.write_nc(d+'/m2.nc','a')
t("multi stack align sort", lambda: da.read_nc([d+'/m2.nc', d+'/m1.nc'], axis='stackdim', align=True, sort=True, keys=['b','a'])['a'])
t("multi stack noalign", lambda: da.read_nc([d+'/m2.nc', d+'/m1.nc'], axis='stackdim', keys=['b','a'])['a'])
t("multi concat", lambda: da.read_nc([d+'/m1.nc', d+'/m2.nc'], axis='x0')['a'])
t("multi concat keys", lambda: da.read_nc([d+'/m1.nc', d+'/m2.nc'], axis='x0', keys=[0,2])['a'])
t("multi var", lambda: da.read_nc([d+'/m1.nc', d+'/m1.nc'], 'a', axis='s', keys=['u','v']))
t("glob", lambda: da.read_nc(d+'/m*.nc', 'a', axis='s', align=True))
# modes
t("mode w- exists", lambda: b1.write_nc(d+'/m1.nc','a', mode='w-'))
t("mode a+ new", lambda: b1.write_nc(d+'/n1.nc','a', mode='a+'))
t("mode a+ existing", lambda: b1.write_nc(d+'/n1.nc','b', mode='a+'))
t("read", lambda: da.read_nc(d+'/n1.nc'))
t("mode a same name overwrite", lambda: (b1*2).write_nc(d+'/n1.nc','b', mode='a'))
t("read", lambda: da.read_nc(d+'/n1.nc')['b'].values)
t("mode a missing file", lambda: b1.write_nc(d+'/zz.nc','b', mode='a'))
t("int32", lambda: da.read_nc((DimArray(np.array([1,2],dtype='int32')).write_nc(d+'/i32.nc','a'), d+'/i32.nc')[1])['a'].dtype)
t("bool var", lambda: DimArray(np.array([True,False])).write_nc(d+'/bool.nc','a'))
t("bool attr", lambda: (setattr(b1,'flag',True), b1.write_nc(d+'/battr.nc','a'), da.read_nc(d+'/battr.nc')['a'].attrs)[2])
