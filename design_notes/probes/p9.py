import numpy as np, warnings, itertools, sys, random, traceback, operator
warnings.simplefilter('ignore')
from gen import *
rng = random.Random(int(sys.argv[1]) if len(sys.argv)>1 else 7)
fails = {}
def note(k, msg):
    fails.setdefault(k, []).append(msg)
for it in range(4000):
    kind = rng.choice(['i','f','s'])
    nd = rng.randint(1,3)
    dims = rng.sample(DIMS, nd)
    kinds = [rng.choice(['i','f','s']) for _ in dims]
    a = mk_array(rng, dims=dims, kinds=kinds, dtype=rng.choice([float,int]))
    a.attrs['u']='m'
    k = rng.randrange(nd); d = dims[k]; ax = a.axes[d]
    a.axes[d].attrs['axm']=1
    pool = {'i': list(range(-6,31)), 'f':[x/2 for x in range(-11,41)], 's':list('abcdefghijklmnop')}[kinds[k]]
    mode = rng.choice(['subset','superset','disjoint','perm','repeat','empty','self'])
    old = ax.values.tolist()
    if mode=='subset': new = rng.sample(old, rng.randint(1,len(old)))
    elif mode=='superset': new = old + rng.sample([p for p in pool if p not in old], 2); rng.shuffle(new)
    elif mode=='disjoint': new = rng.sample([p for p in pool if p not in old], 3)
    elif mode=='perm': new = old[:]; rng.shuffle(new)
    elif mode=='repeat': new = [rng.choice(old) for _ in range(4)]
    elif mode=='empty': new = []
    else: new = old[:]
    if kinds[k]=='s':
        newarr = np.empty(len(new), dtype=object); newarr[:] = new
    else:
        newarr = np.array(new, dtype=int if kinds[k]=='i' else float)
    form = rng.choice(['list','arr','Axis'])
    arg = new if form=='list' else newarr if form=='arr' else Axis(newarr, d)
    fill = rng.choice([np.nan, -99, 0.5])
    raise_error = rng.choice([False, False, True])
    axis_arg = rng.choice([d, k])
    kw = dict(fill_value=fill, raise_error=raise_error)
    missing = [l for l in new if l not in old]
    try:
        r = a.reindex_axis(arg, axis=axis_arg, **kw) if form!='Axis' else a.reindex_axis(arg, **kw)
    except Exception as ex:
        if raise_error and missing and isinstance(ex, IndexError): continue
        note(('exc', type(ex).__name__, str(ex)[:70], mode, form, kinds[k]), (old,new)); continue
    if raise_error and missing: note(('no raise',), (old,new)); continue
    if r.dims != a.dims: note(('dims',), 0); continue
    got = r.axes[d].values.tolist()
    if got != new: note(('newlabels', mode, kinds[k], form), (old,new,got)); continue
    for dd in dims:
        if dd!=d and r.axes[dd].values.tolist()!=a.axes[dd].values.tolist(): note(('other axes',),0)
    # values
    for i,l in enumerate(new):
        rs = np.take(r.values, i, axis=k)
        if l in old:
            es = np.take(a.values, old.index(l), axis=k)
            if not np.array_equal(rs, es): note(('slice', mode), (old,new, a.values, r.values)); break
        else:
            if np.isnan(fill):
                if not np.all(np.isnan(np.asarray(rs, dtype=float))): note(('fill', mode), (old,new,r.values)); break
            elif not np.all(rs==fill): note(('fillv', mode, str(a.dtype), fill), (old,new,r.values)); break
    if mode=='self' and not (np.array_equal(r.values, a.values) and r.dtype==a.dtype): note(('identity',), (a.dtype, r.dtype))
    if r.attrs != {'u':'m'}: note(('attrs',), r.attrs)
    if r.axes[d].attrs != {'axm':1}: note(('axis attrs', mode, form, bool(missing)), r.axes[d].attrs)
# method left/right
for it in range(2000):
    n = rng.randint(1,5)
    lab = mk_labels(rng, n, rng.choice(['i','f']), rng.choice(['inc','dec','shuf']))
    a = DimArray(np.arange(n)*10., axes=[Axis(lab,'t')])
    new = np.array(sorted(rng.sample([x/2 for x in range(-12,62)], 4)))
    method = rng.choice(['left','right'])
    try:
        r = a.reindex_axis(new, method=method)
    except Exception as ex:
        note(('exc-method', type(ex).__name__, str(ex)[:70]), (lab,new)); continue
    srt = np.sort(lab); isort=np.argsort(lab)
    pos = np.searchsorted(srt, new, side=method).clip(0,n-1)
    exp = a.values[isort[pos]]
    if not np.array_equal(r.values, exp): note(('method values', method), (lab,new,r.values,exp))
    if r.axes[0].values.tolist()!=new.tolist(): note(('method labels',method), (lab, new, r.axes[0].values))
for k,v in sorted(fails.items(), key=str):
    print(k, len(v), repr(v[-1])[:300])
print("n fails", len(fails))
