import numpy as np, warnings, itertools, sys, random
warnings.simplefilter('ignore')
from gen import *
rng = random.Random(7)
fails = {}
def note(k, msg):
    fails.setdefault(k, []).append(msg)
for it in range(2000):
    a = mk_array(rng, ndim=rng.randint(0,3), dtype=rng.choice([float,int]), nan=rng.random()<.3)
    if a.dtype.kind=='i' : pass
    a.attrs.update({'s':'str','i':3,'f':2.5,'l':[1,2,'x'], 'd':{'k':1}})
    if rng.random()<.3: a.attrs['bad']=np.arange(3)
    try:
        s = a.to_json(); r = DimArray.from_json(s)
    except Exception as ex:
        note(('exc', a.ndim, str(a.dtype), type(ex).__name__, str(ex)[:80]), 0); continue
    if r.dims!=a.dims: note(('dims',a.ndim),(a.dims,r.dims)); continue
    if any(x.tolist()!=y.tolist() for x,y in zip(r.labels,a.labels)): note(('labels',),(a.labels,r.labels))
    if any(x.dtype.kind!=y.dtype.kind for x,y in zip(r.labels,a.labels)): note(('label kinds',),([x.dtype for x in a.labels],[x.dtype for x in r.labels]))
    if r.values.shape!=a.values.shape or not np.array_equal(r.values.astype(float), a.values.astype(float), equal_nan=True): note(('values',a.ndim),(a.values,r.values))
    exp = {k:v for k,v in a.attrs.items() if k!='bad'}
    if r.attrs!=exp: note(('attrs',),(r.attrs,))
for k,v in sorted(fails.items(), key=str):
    print(k, len(v), repr(v[-1])[:300].replace("\n"," "))
print("n fails", len(fails))
