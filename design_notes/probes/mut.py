import subprocess, shutil, os, sys, re
BASE='/tmp/probe/repo'
MUTS=[
 ("C01 drop absent-label guard", "dimarray/core/bases.py", "            if mode != 'clip':\n", "            if False:\n", "p3x.py"),
 ("C01 locate_one last match", "dimarray/core/indexing.py", "            match = matches[0]\n", "            match = matches[-1]\n", "p3x.py"),
 ("C01 tol strict", "dimarray/core/indexing.py", "        if dist[match] > tol:", "        if dist[match] >= tol:", "p3x.py"),
 ("C02 side swap stop", "dimarray/core/indexing.py", "            istop = np.searchsorted(values, stop, side=right)", "            istop = np.searchsorted(values, stop, side=left)", "p4b.py"),
 ("C02 strict off by one", "dimarray/core/indexing.py", "        istop += -1+2*(step is None or step>0)", "        istop += 0", "p5.py"),
 ("C03 inplace copy dropped", "dimarray/core/bases.py", "        if not inplace:\n            self = self.copy()\n", "        if not inplace:\n            pass\n", "p6.py"),
 ("C03 cast int<-float dropped", "dimarray/core/indexing.py", "    elif values.dtype.kind == 'i' and dtype.kind == 'f':\n        values = np.asarray(values, dtype=float)", "    elif values.dtype.kind == 'i' and dtype.kind == 'f':\n        pass", "p6.py"),
 ("C04 skip reindex", "dimarray/core/operation.py", "    if reindex:\n        o1, o2 = align_axes((o1, o2))", "    if reindex and False:\n        o1, o2 = align_axes((o1, o2))", "p7.py"),
 ("C04 union no dedupe", "dimarray/core/axes.py", "            joined = np.concatenate((self.values, other.values[not_in_self]))", "            joined = np.concatenate((self.values, other.values))", "p7.py"),
 ("C06 decreasing not reversed", "dimarray/core/axes.py", "            if self.values[-1] <= self.values[0]: # decreasing !\n                joined = joined[::-1]", "            if False:\n                joined = joined[::-1]", "p8.py"),
 ("C06 intersection keeps extra", "dimarray/core/axes.py", "        newval = self.values[in_other]", "        newval = self.values", "p8.py"),
 ("C07 mask inverted relabel skipped", "dimarray/core/align.py", "        newobj.axes[axis][mask] = values[mask]", "        pass", "p9.py"),
 ("C07 side default right", "dimarray/core/align.py", "    indices = locate_many(ax.values, values, side=method or 'left')", "    indices = locate_many(ax.values, values, side=method or 'right')", "p9.py"),
 ("C08 newaxes wrong (keep first n-1)", "dimarray/core/transform.py", "        newaxes = [ax for ax in obj.axes if ax.name != name]", "        newaxes = list(obj.axes)[:-1] if obj.axes[-1].size == obj.axes[idx].size else [ax for ax in obj.axes if ax.name != name]", "p10.py"),
 ("C08 median nan policy dropped", "dimarray/core/transform.py", "    if funcname == 'median':\n        return _median_with_nan", "    if funcname == 'median' and False:\n        return _median_with_nan", "p10.py"),
 ("C09 diff backward labels wrong side", "dimarray/core/transform.py", "            newaxis = oldaxis[1:]\n\n    elif scheme == \"centered\":", "            newaxis = oldaxis[:-1]\n\n    elif scheme == \"centered\":", "p11.py"),
 ("C09 argmax returns positions", "dimarray/core/transform.py", "    res = apply_along_axis(obj, 'argmax', axis=idx, skipna=skipna)\n\n    # along axis: single axis value\n    if axis is not None: # res is DimArray\n        if not hasattr(res, 'values'): # 1-D case: scalar position\n            return obj.axes[idx].values[res]\n        res.values = obj.axes[idx].values[res.values] ", "    res = apply_along_axis(obj, 'argmax', axis=idx, skipna=skipna)\n\n    # along axis: single axis value\n    if axis is not None: # res is DimArray\n        if not hasattr(res, 'values'): # 1-D case: scalar position\n            return res\n        pass", "p11.py"),
 ("C10 transpose axes not permuted", "dimarray/core/reshape.py", "    newaxes = [self.axes[i] for i in newshape]\n    return self._constructor(result, newaxes, **self.attrs)", "    newaxes = [self.axes[i] for i in (newshape if len({ax.size for ax in self.axes}) == self.ndim else range(self.ndim))]\n    return self._constructor(result, newaxes, **self.attrs)", "p12.py"),
 ("C10 newaxis pos off", "dimarray/core/reshape.py", "    axes.insert(pos, axis)\n\n    # create new object", "    axes.insert(pos if newvalues.shape[pos-1 if pos else 0] != 1 else max(pos-1,0), axis)\n\n    # create new object", "p12.py"),
 ("C11 flatten F order", "dimarray/core/reshape.py", "    newvalues = self.values.reshape(newshape)\n\n    # Define the new array", "    newvalues = self.values.reshape(newshape, order='F')\n\n    # Define the new array", "p13.py"),
 ("C12 stack check removed", "dimarray/core/align.py", "            if not (axis.size == 1 or np.all(axis.values==common_axis.values)):\n                raise ValueError(\"axes are not aligned\")", "            pass", "p14.py"),
 ("C12 concat check removed", "dimarray/core/align.py", "    if not align and not _no_check:", "    if False:", "p14.py"),
 ("C13 dataset axis not substituted", "dimarray/dataset.py", "                val.axes[i] = existing_axis\n", "                pass\n", "p15c.py"),
 ("C13 obsolete axes kept", "dimarray/dataset.py", "        if len(_maybe_obsolete_axes) > 0:\n            self._maybe_delete_axes(_maybe_obsolete_axes)", "        pass", "p15c.py"),
 ("C14 ds.take wrong dim dict", "dimarray/dataset.py", "            data[nm] = self[nm].take(indices={dim:dict_indices[dim] for dim in self[nm].dims}, indexing='position')", "            data[nm] = self[nm].take(indices={dim:dict_indices[dim] for dim in self[nm].dims[:1]}, indexing='position')", "p16.py"),
 ("C14 attrs dropped in take", "dimarray/dataset.py", "        data.attrs.update(self.attrs) # dataset's metadata\n        return data\n\n    def _apply_dimarray_axis", "        return data\n\n    def _apply_dimarray_axis", "p16.py"),
 ("C17 dropna threshold off by one", "dimarray/core/missingvalues.py", "    return self.compress_axis(count_nans_axis <= maxna, axis=idx)", "    return self.compress_axis(count_nans_axis < maxna + (minvalid is None), axis=idx)", "p20.py"),
 ("C17 sort_axis sorts labels only", "dimarray/core/align.py", "    return a.take_axis(ii, axis=axis, indexing='position')\n\n\ndef argsort", "    r = a.copy(); r.axes[axis][()] = a.axes[axis].values[ii]; return r\n\n\ndef argsort", "p20.py"),
 ("C18 frac from rhs", "dimarray/core/transform.py", "    newval = vleft + _frac*(vright - vleft)", "    newval = vright + _frac*(vleft - vright)", "p21.py"),
 ("C18 no sort before interp", "dimarray/core/transform.py", "    if not issorted:\n        obj = obj.sort_axis(axis=axis)", "    if False:\n        obj = obj.sort_axis(axis=axis)", "p21.py"),
 ("C16 attrs not copied in getitem", "dimarray/core/bases.py", "        dima.attrs.update(self.attrs) # add attribute\n", "        pass\n", "p19x.py"),
 ("C15 reindex in place relabel", "dimarray/core/dimarraycls.py", "        axes = self.axes.copy()\n        newax = ax.take(indices, mode=mode)", "        axes = self.axes\n        newax = ax.take(indices, mode=mode)", "p24.py"),
]
def run(cmd, cwd=None, env=None, timeout=900):
    return subprocess.run(cmd, cwd=cwd, env=env, capture_output=True, text=True, timeout=timeout)
only = sys.argv[1:] 
for name, f, old, new, probe in MUTS:
    if only and not any(o in name for o in only): continue
    d='/tmp/probe/mut_repo'; shutil.rmtree(d, ignore_errors=True); shutil.copytree(BASE, d, ignore=shutil.ignore_patterns('.git','__pycache__'))
    p=os.path.join(d,f); s=open(p).read()
    if s.count(old)<1: print(f"{name:45s} PATCH-FAIL"); continue
    open(p,'w').write(s.replace(old,new,1))
    t = run(['/venv/bin/python','-m','pytest','-q','-p','no:cacheprovider','--timeout=900','--continue-on-collection-errors'], cwd=d)
    m = re.search(r'(\d+) passed', t.stdout); passed = m.group(1) if m else '?'
    env=dict(os.environ, PYTHONPATH=d)
    if not os.path.exists('/tmp/probe/'+probe): print(f"{name:45s} tests_passed={passed} probe {probe} missing"); continue
    r = run(['/venv/bin/python', probe, '5'], cwd='/tmp/probe', env=env)
    out = r.stdout + r.stderr
    cats = [l for l in out.splitlines() if l.startswith('(')]
    m2 = re.search(r'n fails (\d+)', out)
    tb = 'Traceback' in out
    print(f"{name:45s} tests_passed={passed} probe_cats={len(cats)} nfails={m2.group(1) if m2 else '?'} {'TB' if tb else ''} :: {cats[0][:110] if cats else ''}")
shutil.rmtree('/tmp/probe/mut_repo', ignore_errors=True)
