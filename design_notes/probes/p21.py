import numpy as np, warnings, itertools, sys, random
warnings.simplefilter('ignore')
from gen import *
rng = random.Random(int(sys.argv[1]) if len(sys.argv)>1 else 7)
fails = {}
def note(k, msg):
    fails.setdefault(k, []).append(msg)
for it in range(5000):
    nd = rng.randint(1,4)
    dims = rng.sample(DIMS, nd); k=rng.randrange(nd)
    kinds=[rng.choice(['i','f','s']) for _ in dims]; kinds[k]=rng.choice(['i','f'])
    a = mk_array(rng, dims=dims, kinds=kinds, dtype=rng.choice([float,int]))
    a.attrs['u']='m'
    lab = a.axes[k].values; n=len(lab)
    lo,hi=float(lab.min()), float(lab.max())
    pts = [lo-1.5, hi+2] + lab.tolist() + [ (lo+hi)/2, lo+0.25*(hi-lo), hi-0.1*(hi-lo)]
    new = rng.sample(pts, rng.randint(1,len(pts)))
    if rng.random()<.5: new.sort()
    left = rng.choice([np.nan, -1.5]); right = rng.choice([np.nan, 77.])
    kw={}
    if not (left!=left): kw['left']=left
    if not (right!=right): kw['right']=right
    issorted_ok = bool(np.all(np.diff(lab)>=0)) 
    if issorted_ok and rng.random()<.5: kw['issorted']=True
    axisarg=rng.choice([dims[k],k])
    try:
        r = a.interp_axis(np.array(new), axis=axisarg, **kw)
    except Exception as ex:
        note(('exc',nd,type(ex).__name__,str(ex)[:70]),(lab,new)); continue
    order=np.argsort(lab); xs=lab[order].astype(float)
    e = np.apply_along_axis(lambda f: np.interp(np.array(new,dtype=float), xs, f[order].astype(float), left=left, right=right), k, a.values)
    if r.dims!=a.dims: note(('dims',),0); continue
    if r.axes[k].values.tolist()!=list(new): note(('newaxis',),(new,r.axes[k].values)); continue
    if not np.allclose(r.values, e, equal_nan=True, rtol=1e-12, atol=1e-9): note(('values',nd, n, 'sorted' if issorted_ok else 'unsorted'),(lab,new,a.values,r.values,e))
    # exact at nodes
    for i,x in enumerate(new):
        if x in lab.tolist():
            j=lab.tolist().index(x)
            if not np.array_equal(np.take(r.values,i,axis=k), np.take(a.values,j,axis=k).astype(float)): note(('node exact',nd),0); break
    for j,d in enumerate(dims):
        if j!=k and r.axes[d].values.tolist()!=a.axes[d].values.tolist(): note(('other axes',),0)
    if r.attrs!={'u':'m'}: note(('attrs',),r.attrs)
for k,v in sorted(fails.items(), key=str):
    print(k, len(v), repr(v[-1])[:500].replace("\n"," "))
print("n fails", len(fails))
