import numpy as np, warnings, itertools, sys, random, traceback
warnings.simplefilter('ignore')
from gen import *
rng = random.Random(int(sys.argv[1]) if len(sys.argv)>1 else 0)
fails = {}
def note(k, msg):
    fails.setdefault(k, []).append(msg)
N=3000
for it in range(N):
    a = mk_array(rng, ndim=rng.randint(1,3))
    # build index per dim
    idx=[]; exp_pos=[]
    for ax in a.axes:
        n = ax.size
        kind = rng.choice(['scalar','list','mask','full','arr','empty','rep'])
        if kind=='scalar':
            p = rng.randrange(n); idx.append(ax.values[p]); exp_pos.append(p)
        elif kind in ('list','arr','rep'):
            k = rng.randint(1, n) if kind!='rep' else n+1
            ps = [rng.randrange(n) for _ in range(k)]
            lab = [ax.values[p] for p in ps]
            idx.append(lab if kind!='arr' else np.array(lab, dtype=ax.values.dtype)); exp_pos.append(ps)
        elif kind=='empty':
            idx.append([]); exp_pos.append([])
        elif kind=='mask':
            m = np.array([rng.random()<0.5 for _ in range(n)]); idx.append(m); exp_pos.append(list(np.where(m)[0]))
        else:
            idx.append(slice(None)); exp_pos.append(list(range(n)))
    # expected via np.ix_
    v = a.values
    e = v
    for d in range(a.ndim-1, -1, -1):
        e = np.take(e, exp_pos[d], axis=d)
    try:
        r = a[tuple(idx)]
    except Exception as ex:
        note(('exc', type(ex).__name__, tuple(type(i).__name__ for i in idx)), (str(ex)[:100], [getattr(i,'dtype',None) for i in idx]))
        continue
    rv = r.values if hasattr(r,'values') else np.asarray(r)
    if rv.shape != e.shape or not np.array_equal(rv, e):
        note(('values',), (a.dims, a.labels, idx, rv, e))
    if hasattr(r,'dims'):
        exp_dims = tuple(d for d,p in zip(a.dims, exp_pos) if not np.isscalar(p))
        if r.dims != exp_dims: note(('dims',), (a.dims, idx, r.dims))
        else:
            for d,p in zip(a.dims, exp_pos):
                if np.isscalar(p): continue
                el = a.axes[d].values[p] if len(p) else a.axes[d].values[:0]
                if not (len(r.axes[d].values)==len(el) and all(x==y for x,y in zip(r.axes[d].values, el))): note(('labels',), (a.labels, idx, r.labels))
for k,v in fails.items():
    print(k, len(v), v[0])

# absent labels & tol
for it in range(2000):
    n = rng.randint(1,5); kind=rng.choice(['i','f','s']); lab = mk_labels(rng, n, kind)
    a = DimArray(np.arange(n)*10., axes=[Axis(lab,'t')])
    pool = {'i': list(range(-6,31)), 'f':[x/2 for x in range(-11,41)], 's':list('abcdefghijklmnop')}[kind]
    absent = rng.choice([p for p in pool if p not in lab.tolist()])
    present = lab[rng.randrange(n)]
    for idx in (absent, [present, absent], [absent]):
        try:
            r = a[idx]; note(('absent returned', kind, type(idx).__name__), (lab, idx, r))
        except IndexError: pass
        except Exception as ex: note(('absent wrong exc', type(ex).__name__), (lab, idx))
    # duplicates-free first match, repeated
    if kind!='s':
        v = absent; dist = np.abs(lab - v); j=int(np.argmin(dist)); dmin=float(dist[j])
        for tol in (dmin, dmin+0.25, max(dmin-0.25,0)):
            try:
                r = a.take(v, axis=0, tol=tol); ok = True
            except IndexError: ok=False
            if tol>=dmin and tol>0:
                if not ok or r!=j*10.: note(('tol within refused/wrong',),(lab,v,tol))
            elif tol<dmin and tol>0 and ok: note(('tol outside accepted',),(lab,v,tol,r))
print("n fails", len(fails))
