import numpy as np, warnings, itertools, sys, random
warnings.simplefilter('ignore')
from gen import *
rng = random.Random(int(sys.argv[1]) if len(sys.argv)>1 else 7)
fails = {}
def note(k, msg):
    fails.setdefault(k, []).append(msg)
def eq(a,b):
    a=np.asarray(a); b=np.asarray(b)
    if a.shape!=b.shape: return False
    try: return bool(np.all((a==b)|((a!=a)&(b!=b))))
    except Exception: return False
for it in range(6000):
    nd = rng.randint(1,4)
    a = mk_array(rng, ndim=nd, dtype=rng.choice([float,int]))
    isfloat = a.dtype.kind=='f'
    if isfloat:
        pat = rng.choice(['none','some','slice','all'])
        if pat=='some':
            m = np.array([rng.random()<0.3 for _ in range(a.size)]).reshape(a.shape); a.values[m]=np.nan
        elif pat=='slice':
            k=rng.randrange(nd); ix=[slice(None)]*nd; ix[k]=rng.randrange(a.shape[k]); a.values[tuple(ix)]=np.nan
        elif pat=='all': a.values[...] = np.nan
    k = rng.randrange(nd); d=a.dims[k]; axisarg = rng.choice([d,k]); lab=a.axes[k].values; n=len(lab)
    what = rng.choice(['sort','sortkey','take_axis','compress','dropna','fillna','setna'])
    try:
        if what=='sort':
            r = a.sort_axis(axis=axisarg); order = np.argsort(lab, kind='stable')
            if r.axes[k].values.tolist()!=lab[order].tolist() or not eq(r.values, np.take(a.values,order,axis=k)): note((what,),0)
        elif what=='sortkey':
            keymap = {l:i for i,l in enumerate(rng.sample(lab.tolist(), n))}
            key = rng.choice([keymap, lambda x: keymap[x]])
            r = a.sort_axis(axis=axisarg, key=key); order = sorted(range(n), key=lambda i: keymap[lab[i]])
            if r.axes[k].values.tolist()!=lab[order].tolist() or not eq(r.values, np.take(a.values,order,axis=k)): note((what,),0)
        elif what=='take_axis':
            ps=[rng.randrange(n) for _ in range(rng.randint(1,4))]
            if rng.random()<.5: r=a.take_axis([lab[p] for p in ps], axis=axisarg)
            else: r=a.take_axis(ps, axis=axisarg, indexing='position')
            if r.axes[k].values.tolist()!=lab[ps].tolist() or not eq(r.values, np.take(a.values,ps,axis=k)) or r.dims!=a.dims: note((what,),0)
        elif what=='compress':
            m=np.array([rng.random()<.5 for _ in range(n)])
            r=a.compress_axis(m, axis=axisarg)
            if r.axes[k].values.tolist()!=lab[m].tolist() or not eq(r.values, np.compress(m,a.values,axis=k)): note((what,),0)
        elif what=='dropna':
            if not isfloat: continue
            other = int(a.size//n)
            minvalid = None if nd==1 else rng.choice([None]+list(range(0, other+1)))
            r = a.dropna(axis=axisarg, minvalid=minvalid) if minvalid is not None else a.dropna(axis=axisarg)
            cnt = np.isnan(a.values).sum(axis=tuple(i for i in range(nd) if i!=k)) if nd>1 else np.isnan(a.values).astype(int)
            valid = other - cnt
            keep = (cnt==0) if minvalid is None else (valid>=minvalid)
            if not hasattr(r,'axes'): note((what,'not dimarray',nd),(a.shape,r)); continue
            if r.axes[k].values.tolist()!=lab[keep].tolist() or not eq(r.values, np.compress(keep,a.values,axis=k)): note((what, 'minvalid' if minvalid is not None else 'default', nd), (a.values, minvalid, r.values))
        elif what=='fillna':
            val = rng.choice([0, -99.5, 7]); inplace=rng.choice([False,True])
            before=a.values.copy()
            r = a.fillna(val, inplace=inplace); tgt = a if inplace else r
            e = before.copy().astype(float if isinstance(val,float) and not isfloat else before.dtype)
            if isfloat: e[np.isnan(before)]=val
            if not eq(tgt.values,e): note((what,str(before.dtype)),(before,tgt.values,e))
            if not inplace and not eq(a.values,before): note((what,'orig changed'),0)
        else:
            cands = a.values.ravel().tolist()
            form=rng.choice(['scalar','list','mask'])
            if form=='scalar': v=rng.choice(cands); m = a.values==v
            elif form=='list': v=[rng.choice(cands),rng.choice(cands)]; m=(a.values==v[0])|(a.values==v[1])
            else: m=np.array([rng.random()<.4 for _ in range(a.size)]).reshape(a.shape); v=m if rng.random()<.5 else DimArray(m,a.axes)
            r = a.setna(v)
            e = a.values.astype(float).copy(); e[m]=np.nan
            if not eq(r.values,e) or r.dtype.kind!='f' and m.any(): note((what,form,str(a.dtype)),(a.values,v,r.values))
    except Exception as ex:
        note(('exc',what,str(a.dtype),nd,type(ex).__name__,str(ex)[:70]),(a.shape,))
for k,v in sorted(fails.items(), key=str):
    print(k, len(v), repr(v[-1])[:300].replace("\n"," "))
print("n fails", len(fails))
