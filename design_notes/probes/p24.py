import sys; sys.path.insert(0,'/tmp/probe/fakenc')
import numpy as np, warnings, itertools, random, copy
warnings.simplefilter('ignore')
from gen import *
from dimarray import Dataset
def snap(a):
    if isinstance(a, Dataset):
        return ('DS', tuple(a.dims), tuple(tuple(l.tolist()) for l in a.labels), tuple((k, snap(dict.__getitem__(a,k))) for k in a.keys()), repr(a.attrs))
    return (a.values.tobytes(), str(a.dtype), a.dims, tuple(tuple(l.tolist()) for l in a.labels), tuple(str(l.dtype) for l in a.labels), repr(sorted(a.attrs.items())), tuple(repr(sorted(ax.attrs.items())) for ax in a.axes))
rng = random.Random(3)
def mk():
    a = mk_array(rng, dims=['x','y','z'], sizes=[2,3,2], kinds=['s','i','f'])
    for ax in a.axes:
        # unsorted
        if ax.size>2: ax._values[:] = ax._values[[1,2,0]]
        ax.attrs['am']=[1,2]
    a.attrs['m']={'k':[1]}
    return a
a = mk(); t = a.T if False else a.transpose('z','y','x'); sq = a.newaxis('n').squeeze()
b = mk_array(rng, dims=['y','w'], sizes=[3,2], kinds=['i','i'])
b.axes['y']._values[:] = a.axes['y'].values[[2,0,1]]
ops = {
 'getitem': lambda: a[:, [a.axes['y'].values[0]]], 'ix': lambda: a.ix[0], 'put notinplace': lambda: a.put((slice(None), a.axes['y'].values[0]), 5., inplace=False),
 'add': lambda: a+b, 'radd': lambda: b*a, 'add scalar': lambda: a+1, 'cmp': lambda: a>3, 'eq': lambda: a==a, 'neg': lambda: -a,
 'mean': lambda: a.mean(axis='y'), 'sum tuple': lambda: a.sum(axis=('y','z')), 'median': lambda: a.median(axis=0), 'cumsum': lambda: a.cumsum(axis=1), 'diff': lambda: a.diff(axis='y', keepaxis=True), 'argmax': lambda: a.argmax(axis='y'),
 'transpose': lambda: a.transpose('z','x','y'), 'swapaxes': lambda: a.swapaxes(0,2), 'newaxis': lambda: a.newaxis('k', values=[1,2]), 'squeeze': lambda: a.newaxis('k').squeeze(), 'flatten': lambda: a.flatten(('z','x')), 'flatten/unflatten': lambda: a.flatten(('z','x'), insert=0).unflatten(),
 'reshape': lambda: a.reshape('y','x,z'), 'reshape2': lambda: a.flatten(('x','z'),insert=0).reshape('z','y','x'), 'broadcast': lambda: b.broadcast(list(a.axes)+[b.axes['w']]) if False else a.broadcast([Axis([1,2],'k')]+list(a.axes)),
 'broadcast_arrays': lambda: da.broadcast_arrays(a, a.mean(axis='y')),
 'reindex': lambda: a.reindex_axis([0,1,99], axis='y'), 'reindex_like': lambda: a.reindex_like(b), 'align': lambda: da.align([a,b]), 'align sort': lambda: da.align([a,b], sort=True), 'align inner': lambda: da.align([a,b], join='inner', sort=True),
 'sort_axis': lambda: a.sort_axis(axis='y'), 'interp': lambda: a.interp_axis([0.,1.5], axis='y'), 'interp_like': lambda: a.interp_like(b),
 'stack': lambda: da.stack([a,a*2], axis='s'), 'stack align sort': lambda: da.stack([a,a.sort_axis(axis='y')], axis='s', align=True, sort=True), 'concat': lambda: da.concatenate([a,a], axis='y'), 'concat align': lambda: da.concatenate([a,a.sort_axis(axis='z')], axis='y', align=True, sort=True),
 'dropna': lambda: a.dropna(axis='y'), 'fillna': lambda: a.fillna(0), 'setna': lambda: a.setna(a.values[0,0,0]),
 'to_json': lambda: a.to_json(), 'write_nc': lambda: a.write_nc('/tmp/probe/nc/imm.nc','a'), 'Dataset()': lambda: Dataset(a=a, b=b), 'ds insert': lambda: Dataset().__setitem__('a', a), 
 'percentile': lambda: da.percentile(a, [50], axis='y'), 'apply': lambda: a.apply(np.sqrt), 'take_axis': lambda: a.take_axis([0], axis='y', indexing='position'), 'compress': lambda: a[a.values>3],
 'iter': lambda: list(a.iter('y')), 'to_dataset': lambda: a.to_dataset(axis='x'), 'transposed op': lambda: (t+1, t.mean(axis='y'), t.sort_axis(axis='y')), 'sq op': lambda: sq.sort_axis(axis='y'),
}
for k,f in ops.items():
    s = [snap(a), snap(b), snap(t), snap(sq)]
    try: f()
    except Exception as e: print(f"{k:20s} EXC {type(e).__name__} {str(e)[:80]}")
    s2 = [snap(a), snap(b), snap(t), snap(sq)]
    if s!=s2: print(f"{k:20s} MUTATED operands", [i for i in range(4) if s[i]!=s2[i]])
# dataset ops immutability
ds = Dataset(a=a, b=b); ds.attrs['t']='T'
dops = {'take': lambda: ds.take(indices={'y':a.axes['y'].values[0]}), 'mean': lambda: ds.mean(axis='y'), 'sort_axis': lambda: ds.sort_axis(axis='y'), 'reindex': lambda: ds.reindex_axis(a.axes['y'].values[::-1], axis='y'), 'add': lambda: ds+ds, 'mul': lambda: ds*2,
 'write_nc': lambda: ds.write_nc('/tmp/probe/nc/imm2.nc'), 'copy': lambda: ds.copy(), 'stack_ds': lambda: da.stack_ds([ds,ds], axis='s'), 'concat_ds': lambda: da.concatenate_ds([ds,ds], axis='y'), 'interp': lambda: ds.interp_axis([0.5], axis='y'), 'take_axis': lambda: ds.take_axis([a.axes['y'].values[0]], axis='y')}
for k,f in dops.items():
    s = [snap(ds), snap(a), snap(b)]
    try: f()
    except Exception as e: print(f"ds {k:20s} EXC {type(e).__name__} {str(e)[:80]}")
    if s != [snap(ds), snap(a), snap(b)]: print(f"ds {k:20s} MUTATED")
# copy deep
c = a.copy(); c.values[...] = -1; c.axes['y'][0] = 777; c.axes['x'].name='q'; c.attrs['m']['k'].append(2); c.axes['y'].attrs['am'].append(3)
print("copy deep:", snap(a)==s[1] if False else (a.attrs, a.dims, a.labels[1], a.axes['y'].attrs))
